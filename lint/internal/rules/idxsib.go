package rules

import (
	"fmt"
	"go/ast"
	"go/token"
	"go/types"
	"sort"

	"golang.org/x/tools/go/ssa"

	"regexlint/internal/core"
)

// R-IDXSIB: sibling index sites agree on their guards (contradiction rule).
//
// Within one function, when a table held in a struct field is indexed at
// several sites with the same index shape and at least one site is reached
// only under an upper bound on the indexed quantity (`x < K`), every such site
// must be: if one path checks the bound and another indexes unconditionally,
// one of them is wrong.
func RIdxSib(c *core.Ctx) {
	c.Rule("R-IDXSIB", "within a function, all sites that index the same field-held table with the same index shape are reached under an upper bound on the indexed value if any one of them is (a guard present on one lookup and missing on its sibling is a contradiction)", 2)
	p := c.P
	type site struct {
		ins     ssa.Instruction
		bounded bool
		byConst bool
		shape   string
	}
	nGroups, nSites := 0, 0
	for _, fn := range p.ModuleFuncs() {
		name := core.SSAName(fn)
		groups := map[string][]site{}
		for _, b := range fn.Blocks {
			for _, ins := range b.Instrs {
				var base, idx ssa.Value
				switch x := ins.(type) {
				case *ssa.IndexAddr:
					base, idx = x.X, x.Index
				case *ssa.Index:
					base, idx = x.X, x.Index
				default:
					continue
				}
				ld, ok := base.(*ssa.UnOp)
				if !ok {
					continue
				}
				f := core.FieldVarOfAddr(ld.X)
				if f == nil {
					continue
				}
				// index shape and the variable it is computed from
				shape, root := idxShape(idx, 0)
				if root == nil {
					continue
				}
				bounded, byConst := false, false
				for _, fct := range core.FactsAtBlock(b) {
					x, y, op, ok := core.CmpNorm(fct)
					if !ok || (op != token.LSS && op != token.LEQ) {
						continue
					}
					if x == root {
						if _, isC := core.IntConst(y); isC {
							bounded, byConst = true, true
						}
						// i < len(<the same table>)
						if lc, isCall := y.(*ssa.Call); isCall {
							if bi, isB := lc.Call.Value.(*ssa.Builtin); isB && bi.Name() == "len" && len(lc.Call.Args) == 1 {
								if l2, isLd := lc.Call.Args[0].(*ssa.UnOp); isLd && core.FieldVarOfAddr(l2.X) == f {
									bounded = true
								}
							}
						}
					}
				}
				key := f.Name() + "[" + shape + "]"
				groups[key] = append(groups[key], site{ins, bounded, byConst, shape})
			}
		}
		var keys []string
		for k := range groups {
			keys = append(keys, k)
		}
		sort.Strings(keys)
		for _, k := range keys {
			ss := groups[k]
			if len(ss) < 2 {
				continue
			}
			any := false
			for _, s := range ss {
				if s.byConst {
					any = true // the contradiction is about a CONSTANT capacity bound
				}
			}
			if !any {
				continue
			}
			nGroups++
			c.Visit(name)
			sort.Slice(ss, func(i, j int) bool { return ss[i].ins.Pos() < ss[j].ins.Pos() })
			for i, s := range ss {
				nSites++
				c.Check(s.bounded, fmt.Sprintf("%s / lookup #%d in %s is bounded like its siblings", name, i+1, k), s.ins.Pos(), "another lookup of the same table in this function is reached only under an upper bound on the indexed value; this one is not")
			}
		}
	}
	if nGroups == 0 {
		c.Anchor("sibling table lookups with a bounded member")
	}
}

// idxShape renders an index expression with its root variable replaced by "x":
// x>>8, x&255, x, x-1 …  and returns that root.
func idxShape(v ssa.Value, depth int) (string, ssa.Value) {
	if depth > 4 {
		return "", nil
	}
	switch x := v.(type) {
	case *ssa.BinOp:
		if k, ok := core.IntConst(x.Y); ok {
			s, r := idxShape(x.X, depth+1)
			if r == nil {
				return "", nil
			}
			return fmt.Sprintf("(%s%s%d)", s, x.Op, k), r
		}
		return "", nil
	case *ssa.Convert:
		return idxShape(x.X, depth+1)
	case *ssa.Const:
		return "", nil
	default:
		if b, ok := v.Type().Underlying().(*types.Basic); ok && b.Info()&types.IsInteger != 0 {
			return "x", v
		}
	}
	return "", nil
}

// R-ATOMMERGE: an atomic loop's bounds are not widened by what follows it.
func RAtomMerge(c *core.Ctx) {
	c.Rule("R-ATOMMERGE", "in reduceConcatenationWithAdjacentLoops every statement that grows the iteration bounds of the current loop from the node that follows it sits in a branch that excludes atomic loops — the branch tests the loop's kind against non-atomic kinds only, or an `IsAtomicloopFamily()` bail-out precedes it: absorbing following text into (?>a+) would let it match what it must refuse", 3)
	p := c.P
	syn := p.Pkg("syntax")
	info := syn.TypesInfo
	fd, _ := p.DeclOf(p.LookupFunc("syntax", "RegexNode.reduceConcatenationWithAdjacentLoops"))
	mField := p.LookupField("syntax", "RegexNode", "M")
	tField := p.LookupField("syntax", "RegexNode", "T")
	isAtomic := p.LookupFunc("syntax", "RegexNode.IsAtomicloopFamily")
	if fd == nil || mField == nil || tField == nil || isAtomic == nil {
		c.Anchor("reduceConcatenationWithAdjacentLoops / RegexNode.M / T / IsAtomicloopFamily")
		return
	}
	c.Visit("syntax.(*RegexNode).reduceConcatenationWithAdjacentLoops")
	atomicKinds := map[int64]bool{}
	for _, n := range []string{"NtOneloopatomic", "NtNotoneloopatomic", "NtSetloopatomic"} {
		if v, ok := constInScope(syn.Types, n); ok {
			atomicKinds[v] = true
		}
	}
	// helper methods that include atomic kinds
	widening := map[string]bool{"IsOneloopFamily": true, "IsNotoneloopFamily": true, "IsSetloopFamily": true, "IsOneFamily": true, "IsNotoneFamily": true, "IsSetFamily": true}
	var stack []ast.Node
	n := 0
	ast.Inspect(fd.Body, func(x ast.Node) bool {
		if x == nil {
			stack = stack[:len(stack)-1]
			return true
		}
		stack = append(stack, x)
		var lhs ast.Expr
		switch s := x.(type) {
		case *ast.AssignStmt:
			if s.Tok == token.ADD_ASSIGN && len(s.Lhs) == 1 {
				lhs = s.Lhs[0]
			}
		case *ast.IncDecStmt:
			if s.Tok == token.INC {
				lhs = s.X
			}
		}
		if lhs == nil || core.FieldOf(info, lhs) != mField {
			return true
		}
		base := types.ExprString(ast.Unparen(lhs).(*ast.SelectorExpr).X)
		n++
		// innermost enclosing if-branch whose condition mentions base.T or a family helper on base
		okGuard, why := false, "no enclosing test of the loop's kind"
		for i := len(stack) - 2; i >= 0; i-- {
			ifs, ok := stack[i].(*ast.IfStmt)
			if !ok {
				continue
			}
			// are we in the then-branch?
			if !(ifs.Body.Pos() <= x.Pos() && x.End() <= ifs.Body.End()) {
				continue
			}
			mentions, usesWide, listsAtomic := false, false, false
			ast.Inspect(ifs.Cond, func(y ast.Node) bool {
				switch z := y.(type) {
				case *ast.BinaryExpr:
					if z.Op == token.EQL && core.FieldOf(info, z.X) == tField && types.ExprString(ast.Unparen(z.X).(*ast.SelectorExpr).X) == base {
						mentions = true
						if v, ok := core.ConstInt(info, z.Y); ok && atomicKinds[v] {
							listsAtomic = true
						}
					}
				case *ast.CallExpr:
					if sel, ok := z.Fun.(*ast.SelectorExpr); ok && types.ExprString(sel.X) == base && widening[sel.Sel.Name] {
						mentions, usesWide = true, true
					}
				}
				return true
			})
			if !mentions {
				continue
			}
			if !usesWide && !listsAtomic {
				okGuard, why = true, "kind tested against non-atomic kinds only"
			} else {
				// a preceding bail-out on IsAtomicloopFamily() inside this branch, before the statement
				bail := false
				ast.Inspect(ifs.Body, func(y ast.Node) bool {
					if inner, ok := y.(*ast.IfStmt); ok && inner.End() <= x.Pos() {
						hasAtomic := false
						ast.Inspect(inner.Cond, func(z ast.Node) bool {
							if call, ok := z.(*ast.CallExpr); ok && core.IsCallTo(info, call, isAtomic) {
								hasAtomic = true
							}
							return true
						})
						leaves := false
						for _, st := range inner.Body.List {
							if br, ok := st.(*ast.BranchStmt); ok && (br.Tok == token.GOTO || br.Tok == token.CONTINUE || br.Tok == token.BREAK) {
								leaves = true
							}
						}
						if hasAtomic && leaves {
							bail = true
						}
					}
					return true
				})
				okGuard = bail
				why = "the branch admits atomic kinds (family helper / atomic constant) and no IsAtomicloopFamily() bail-out precedes the statement"
				if bail {
					why = "family helper admits atomic kinds, but an IsAtomicloopFamily() bail-out precedes"
				}
			}
			break
		}
		c.Check(okGuard, fmt.Sprintf("reduceConcatenationWithAdjacentLoops / growth #%d of %s.M excludes atomic loops", n, base), x.Pos(), "%s", why)
		return true
	})
	if n == 0 {
		c.Anchor("statements growing <loop>.M in reduceConcatenationWithAdjacentLoops")
	}
}

// ---------------------------------------------------------------------------
// R-GROWCMP: grow-before-store compares with >=.
//   if depth >= len(stack) { stack = grow(stack) } ; stack[depth] = v
// With `>` the store at depth == len(stack) is out of range.
// ---------------------------------------------------------------------------

func RGrowCmp(c *core.Ctx) {
	c.Rule("R-GROWCMP", "wherever a function compares an index value x with len(T) of a field-held slice and also indexes T[x], the comparison treats x == len(T) as out of range (x >= len(T) / x < len(T)); `x > len(T)` lets the index equal to the length through", 2)
	p := c.P
	n := 0
	for _, fn := range p.ModuleFuncs() {
		name := core.SSAName(fn)
		cnt := 0
		for _, b := range fn.Blocks {
			for _, ins := range b.Instrs {
				bin, ok := ins.(*ssa.BinOp)
				if !ok {
					continue
				}
				x, y, op := bin.X, bin.Y, bin.Op
				lenOf := func(v ssa.Value) *types.Var {
					call, ok := v.(*ssa.Call)
					if !ok {
						return nil
					}
					if bi, ok := call.Call.Value.(*ssa.Builtin); !ok || bi.Name() != "len" {
						return nil
					}
					if ld, ok := call.Call.Args[0].(*ssa.UnOp); ok {
						return core.FieldVarOfAddr(ld.X)
					}
					return nil
				}
				f := lenOf(y)
				if f == nil {
					if f = lenOf(x); f == nil {
						continue
					}
					x, y = y, x
					switch op {
					case token.LSS:
						op = token.GTR
					case token.GTR:
						op = token.LSS
					case token.LEQ:
						op = token.GEQ
					case token.GEQ:
						op = token.LEQ
					}
				}
				if op != token.LSS && op != token.GTR && op != token.LEQ && op != token.GEQ {
					continue
				}
				// is T[x] indexed in this function?
				indexed := false
				for _, b2 := range fn.Blocks {
					for _, i2 := range b2.Instrs {
						ia, ok := i2.(*ssa.IndexAddr)
						if !ok {
							continue
						}
						ld, ok := ia.X.(*ssa.UnOp)
						if !ok || core.FieldVarOfAddr(ld.X) != f {
							continue
						}
						if core.SameValue(ia.Index, x) || sameFieldLoad(ia.Index, x) {
							indexed = true
						}
					}
				}
				if !indexed {
					continue
				}
				cnt++
				n++
				c.Visit(name)
				c.Check(op == token.GEQ || op == token.LSS, fmt.Sprintf("%s / bound test #%d on %s excludes the index equal to the length", name, cnt, f.Name()), bin.Pos(),
					"`index %s len(%s)` is used although %s[index] is accessed: when the index equals the length the access is out of range", op, f.Name(), f.Name())
			}
		}
	}
	if n == 0 {
		c.Anchor("a comparison of an index with len(T) in a function that accesses T[index]")
	}
}

// sameFieldLoad: both values are loads of the same field of the same base
// object (the field may have been re-read; a depth counter is not modified
// between its bound test and its use as an index in the shapes considered).
func sameFieldLoad(a, b ssa.Value) bool {
	la, ok1 := a.(*ssa.UnOp)
	lb, ok2 := b.(*ssa.UnOp)
	if !ok1 || !ok2 || la.Op != token.MUL || lb.Op != token.MUL {
		return false
	}
	fa, ok1 := la.X.(*ssa.FieldAddr)
	fb, ok2 := lb.X.(*ssa.FieldAddr)
	return ok1 && ok2 && fa.Field == fb.Field && (fa.X == fb.X || core.SameValue(fa.X, fb.X))
}

// ---------------------------------------------------------------------------
// R-DEADCOPY: copy(dst, src) immediately followed by dst = src.
// The copy writes into a slice that is then dropped: whatever it was meant to
// preserve is lost, which is what happens when the arguments of
// copy(new, old) are written the wrong way round before `old = new`.
// ---------------------------------------------------------------------------

func RDeadCopy(c *core.Ctx) {
	c.Rule("R-DEADCOPY", "no copy(dst, src) into a field-held slice is followed, with no read of that field in between, by the assignment of src itself to that field: such a copy is dead and the entries it should have carried over (copy(new, old); old = new) are lost", 1)
	p := c.P
	n := 0
	for _, fn := range p.ModuleFuncs() {
		name := core.SSAName(fn)
		cnt := 0
		for _, b := range fn.Blocks {
			for i, ins := range b.Instrs {
				call, ok := ins.(*ssa.Call)
				if !ok {
					continue
				}
				bi, ok := call.Call.Value.(*ssa.Builtin)
				if !ok || bi.Name() != "copy" {
					continue
				}
				dst, src := call.Call.Args[0], call.Call.Args[1]
				fieldOf := func(v ssa.Value) *ssa.FieldAddr {
					if ld, ok := v.(*ssa.UnOp); ok {
						if fa, ok := ld.X.(*ssa.FieldAddr); ok {
							return fa
						}
					}
					return nil
				}
				fa := fieldOf(dst)
				if fa == nil && fieldOf(src) == nil {
					continue // neither side is a field-held slice
				}
				cnt++
				n++
				c.Visit(name)
				if fa == nil {
					c.OK(fmt.Sprintf("%s / copy #%d into a field-held slice is not dead", name, cnt), call.Pos(), "copies out of a field into a local slice")
					continue
				}
				dead := token.NoPos
				for _, later := range b.Instrs[i+1:] {
					if l2, ok := later.(*ssa.UnOp); ok && l2.Op == token.MUL {
						if fa2, ok := l2.X.(*ssa.FieldAddr); ok && fa2.Field == fa.Field && core.SameValue(fa2.X, fa.X) {
							break // the field is read again: the copy is observable
						}
					}
					if st, ok := later.(*ssa.Store); ok {
						if fa2, ok := st.Addr.(*ssa.FieldAddr); ok && fa2.Field == fa.Field && core.SameValue(fa2.X, fa.X) {
							if st.Val == src {
								dead = st.Pos()
							}
							break
						}
					}
				}
				c.Check(dead == token.NoPos, fmt.Sprintf("%s / copy #%d into a field-held slice is not dead", name, cnt), call.Pos(),
					"the destination field is overwritten with the copy's own source at %s before it is read again: the copy has no effect (arguments the wrong way round?)", p.Pos(dead))
			}
		}
	}
	if n == 0 {
		c.Anchor("copy() into a field-held slice")
	}
}

// ---------------------------------------------------------------------------
// R-MAKEARG: a caller's count is a limit, not an allocation size.
// make([]T, 0, n) with n taken straight from an exported entry point panics
// ("makeslice: cap out of range") for large n although n only bounds how many
// results are wanted.  The size has to be clamped first.
// ---------------------------------------------------------------------------

func RMakeArg(c *core.Ctx) {
	c.Rule("R-MAKEARG", "no make() in packages regexp2 / compat takes its length or capacity directly (or times a constant) from an integer parameter that an exported function or method passes on from its own parameter list, unless a dominating comparison bounds that parameter from above", 1)
	p := c.P
	n := 0
	exportedParam := func(fn *ssa.Function, prm *ssa.Parameter) bool {
		idx := -1
		for i, q := range fn.Params {
			if q == prm {
				idx = i
			}
		}
		if idx < 0 {
			return false
		}
		if fn.Object() != nil && fn.Object().Exported() {
			return true
		}
		// one level: an exported caller passes its own parameter
		for _, g := range p.ModuleFuncs() {
			if g.Object() == nil || !g.Object().Exported() {
				continue
			}
			for _, b := range g.Blocks {
				for _, ins := range b.Instrs {
					call, ok := ins.(*ssa.Call)
					if !ok || call.Call.StaticCallee() != fn || idx >= len(call.Call.Args) {
						continue
					}
					if _, ok := call.Call.Args[idx].(*ssa.Parameter); ok {
						return true
					}
				}
			}
		}
		return false
	}
	for _, fn := range p.ModuleFuncs() {
		pkg := core.FnPkgPath(fn)
		if pkg != core.PkgRoot && pkg != core.PkgCompat {
			continue
		}
		name := core.SSAName(fn)
		cnt := 0
		for _, b := range fn.Blocks {
			for _, ins := range b.Instrs {
				ms, ok := ins.(*ssa.MakeSlice)
				if !ok {
					continue
				}
				for _, sz := range []ssa.Value{ms.Len, ms.Cap} {
					var prm *ssa.Parameter
					switch x := sz.(type) {
					case *ssa.Parameter:
						prm = x
					case *ssa.BinOp:
						if q, ok := x.X.(*ssa.Parameter); ok && x.Op == token.MUL {
							if _, isC := core.IntConst(x.Y); isC {
								prm = q
							}
						}
					}
					if prm == nil || !exportedParam(fn, prm) {
						continue
					}
					cnt++
					n++
					c.Visit(name)
					bounded := false
					for _, f := range core.FactsAtBlock(b) {
						x, y, op, ok := core.CmpNorm(f)
						if ok && x == ssa.Value(prm) && (op == token.LSS || op == token.LEQ) {
							_ = y
							bounded = true
						}
					}
					c.Check(bounded, fmt.Sprintf("%s / make size #%d taken from a caller's count is bounded", name, cnt), ms.Pos(),
						"the size is the parameter %s, which an exported entry point passes on unchecked: a large count (1<<62) panics with `makeslice: cap out of range` although it only limits the number of results", prm.Name())
				}
			}
		}
	}
	if n == 0 {
		c.Note("R-MAKEARG: no make() sized by an entry point's parameter")
		c.OK("regexp2 / no allocation is sized by a caller's count", token.NoPos, "no such make()")
	}
}

// ---------------------------------------------------------------------------
// R-ATOMREP: a repeated atomic loop is not an atomic loop with multiplied
// bounds.  reduceRep folds (x{a,b}){c,d} into x{ac,bd}.  For an atomic inner
// loop every iteration keeps what it took: (?>a{1,2}){2} on "aa" fails (the
// first iteration takes both), a{2,4} does not.  The fold is sound only with
// at most one mandatory outer iteration or an inner loop that may match
// nothing, so the arm that accepts the atomic kinds must be conditional on the
// bounds.
// ---------------------------------------------------------------------------

func RAtomRep(c *core.Ctx) {
	c.Rule("R-ATOMREP", "in reduceRep the case arm that accepts atomic single-character loop kinds (Oneloopatomic, Notoneloopatomic, Setloopatomic) as foldable into the outer repetition does not set `valid` to the constant true: its value depends on the bounds (outer minimum <= 1 or inner minimum == 0)", 1)
	p := c.P
	syn := p.Pkg("syntax")
	info := syn.TypesInfo
	fd, _ := p.DeclOf(p.LookupFunc("syntax", "RegexNode.reduceRep"))
	if fd == nil {
		c.Anchor("syntax.RegexNode.reduceRep")
		return
	}
	c.Visit("syntax.(*RegexNode).reduceRep")
	atomic := map[int64]string{}
	for _, nm := range []string{"NtOneloopatomic", "NtNotoneloopatomic", "NtSetloopatomic"} {
		if v, ok := constInScope(syn.Types, nm); ok {
			atomic[v] = nm
		}
	}
	n := 0
	ast.Inspect(fd.Body, func(x ast.Node) bool {
		cc, ok := x.(*ast.CaseClause)
		if !ok {
			return true
		}
		kind := ""
		for _, e := range cc.List {
			if v, ok := core.ConstInt(info, e); ok && atomic[v] != "" {
				kind = atomic[v]
			}
		}
		if kind == "" {
			return true
		}
		for _, st := range cc.Body {
			as, ok := st.(*ast.AssignStmt)
			if !ok || len(as.Lhs) != 1 || len(as.Rhs) != 1 {
				continue
			}
			n++
			tv, isConst := info.Types[as.Rhs[0]]
			unconditional := isConst && tv.Value != nil && tv.Value.String() == "true"
			c.Check(!unconditional, fmt.Sprintf("reduceRep / folding an atomic inner loop (#%d) depends on the bounds", n), as.Pos(),
				"%s = true for %s regardless of the iteration counts: (?>a{1,2}){2} becomes a{2,4} and matches \"aa\", (?>b+){2,} becomes b{2,} and matches \"bb\"; with two or more mandatory iterations of an inner loop that must consume something the repeated atomic loop fails there", types.ExprString(as.Lhs[0]), kind)
			// with an outer minimum of 0 the group loop can be backtracked into and left with ZERO
			// iterations; one merged atomic loop cannot give anything back.  Evaluate the condition
			// three-valued under "outer minimum == 0": it must come out false.
			minVar := outerMinVar(info, fd)
			if minVar == nil {
				c.Unknown(fmt.Sprintf("reduceRep / folding an atomic inner loop (#%d) is refused when the outer loop may run zero times", n), as.Pos(), "cannot identify the local that holds the outer loop's minimum (assigned from the receiver's M)")
			} else {
				v := evalUnderInt(info, as.Rhs[0], minVar, 0)
				c.Check(v == tFalse, fmt.Sprintf("reduceRep / folding an atomic inner loop (#%d) is refused when the outer loop may run zero times", n), as.Pos(),
					"with the outer minimum 0 the condition `%s` can hold: (?>b+)*b must match \"b\" by running the group zero times, (?>b*)b cannot", types.ExprString(as.Rhs[0]))
			}
		}
		return true
	})
	if n == 0 {
		c.OK("reduceRep / atomic inner loops are not folded", fd.Pos(), "no case arm accepts an atomic single-character loop kind")
	}
}

// outerMinVar: the local of fd that is assigned (once) from <receiver>.M.
func outerMinVar(info *types.Info, fd *ast.FuncDecl) types.Object {
	if fd.Recv == nil || len(fd.Recv.List) != 1 || len(fd.Recv.List[0].Names) != 1 {
		return nil
	}
	recv := info.ObjectOf(fd.Recv.List[0].Names[0])
	var out types.Object
	ast.Inspect(fd.Body, func(x ast.Node) bool {
		as, ok := x.(*ast.AssignStmt)
		if !ok || len(as.Lhs) != len(as.Rhs) {
			return true
		}
		for i, l := range as.Lhs {
			id, ok := l.(*ast.Ident)
			if !ok {
				continue
			}
			sel, ok := ast.Unparen(as.Rhs[i]).(*ast.SelectorExpr)
			if !ok || sel.Sel.Name != "M" {
				continue
			}
			if rid, ok := ast.Unparen(sel.X).(*ast.Ident); ok && info.ObjectOf(rid) == recv && out == nil {
				out = info.ObjectOf(id)
			}
		}
		return true
	})
	return out
}

// evalUnderInt evaluates a boolean expression three-valued, knowing only that variable v has the value k.
func evalUnderInt(info *types.Info, e ast.Expr, v types.Object, k int64) tri {
	e = ast.Unparen(e)
	if tv, ok := info.Types[e]; ok && tv.Value != nil {
		switch tv.Value.String() {
		case "true":
			return tTrue
		case "false":
			return tFalse
		}
	}
	switch x := e.(type) {
	case *ast.UnaryExpr:
		if x.Op == token.NOT {
			switch evalUnderInt(info, x.X, v, k) {
			case tTrue:
				return tFalse
			case tFalse:
				return tTrue
			}
			return tUnknown
		}
	case *ast.BinaryExpr:
		switch x.Op {
		case token.LAND:
			a, b := evalUnderInt(info, x.X, v, k), evalUnderInt(info, x.Y, v, k)
			if a == tFalse || b == tFalse {
				return tFalse
			}
			if a == tTrue && b == tTrue {
				return tTrue
			}
			return tUnknown
		case token.LOR:
			a, b := evalUnderInt(info, x.X, v, k), evalUnderInt(info, x.Y, v, k)
			if a == tTrue || b == tTrue {
				return tTrue
			}
			if a == tFalse && b == tFalse {
				return tFalse
			}
			return tUnknown
		case token.EQL, token.NEQ, token.LSS, token.LEQ, token.GTR, token.GEQ:
			val := func(e ast.Expr) (int64, bool) {
				if id, ok := ast.Unparen(e).(*ast.Ident); ok && info.ObjectOf(id) == v {
					return k, true
				}
				return core.ConstInt(info, e)
			}
			a, ok1 := val(x.X)
			b, ok2 := val(x.Y)
			if !ok1 || !ok2 {
				return tUnknown
			}
			var r bool
			switch x.Op {
			case token.EQL:
				r = a == b
			case token.NEQ:
				r = a != b
			case token.LSS:
				r = a < b
			case token.LEQ:
				r = a <= b
			case token.GTR:
				r = a > b
			case token.GEQ:
				r = a >= b
			}
			if r {
				return tTrue
			}
			return tFalse
		}
	}
	return tUnknown
}
