package rules

import (
	"fmt"
	"go/ast"
	"go/token"
	"go/types"
	"sort"
	"strings"

	"regexlint/internal/core"
)

// ---------------------------------------------------------------------------
// R-BRACKET: the code the writer emits around a node's children keeps the
// grouping stack balanced along every execution path, including the jumps.
//
// Each arm of emitFragment is interpreted symbolically, for a concrete child
// index and child count, forking on conditions over node.M / node.N /
// emitCapture(node) (the same condition text takes the same value in the
// Before and After arms of one node).  The interpreter tracks
//   d          the grouping-stack depth relative to the node's entry (or
//              "unreachable" after an instruction that never falls through)
//   intStack   the writer's own stack of saved code positions, each with the
//              depth that held at that position
// and uses, per opcode, the effects read from the interpreter's forward
// clause: ADV (depth change when it advances), whether it can fall through at
// all, and the depth change on its goTo exit.
//   emit(op)                 d += ADV(op); no fall-through -> d = unreachable
//   emit1(Branch*, popInt()) backward jump: d + JMP(op) must equal the depth
//                            saved at the target
//   pushInt(curPos())        save (d)
//   patchJump(rec, curPos()) the instruction at rec also arrives here: depths
//                            must agree (or d becomes rec's depth when the
//                            fall-through is unreachable)
// After the last After arm d must be 0 and the position stack empty.
// ---------------------------------------------------------------------------

const unreachable = int64(-1 << 40)

type opFx struct {
	adv     []int64 // depths (relative to the depth before the instruction) with which execution continues at the next instruction
	jmp     []int64 // depths with which execution continues at the jump operand
	hasAdv  bool
	hasGoto bool
	why     string // non-empty: effects could not be computed
}

// stackEffects computes, per opcode, the grouping-stack depth (relative to the
// depth before the instruction runs) with which control leaves the instruction
// through each kind of exit.  Exits taken from a backtracking clause count too
// (Lazybranch jumps from its Back clause): a Back clause starts at the depth
// left by the path that pushed its frame — everything executed in between is
// undone by backtracking, which is what R-STK establishes per opcode.
func stackEffects(c *core.Ctx, m *opModel) map[int64]*opFx {
	p := c.P
	info := p.Pkg("").TypesInfo
	fn := func(n string) *types.Func { return p.LookupFunc("", "Runner."+n) }
	push1, push2, pop1, popN, advance, goTo := fn("stackPush"), fn("stackPush2"), fn("stackPop"), fn("stackPopN"), fn("advance"), fn("goTo")
	opField := p.LookupField("", "Runner", "operator")
	if push1 == nil || push2 == nil || pop1 == nil || popN == nil || advance == nil || goTo == nil || opField == nil {
		c.Anchor("Runner.stackPush/stackPush2/stackPop/stackPopN/advance/goTo/operator")
		return nil
	}
	pushPos, pushNeg := map[*types.Func]bool{}, map[*types.Func]bool{}
	for _, n := range []string{"trackPush", "trackPush1", "trackPush2", "trackPush3"} {
		if f := fn(n); f != nil {
			pushPos[f] = true
		} else {
			c.Anchor("Runner." + n)
			return nil
		}
	}
	for _, n := range []string{"trackPushNeg1", "trackPushNeg2"} {
		if f := fn(n); f != nil {
			pushNeg[f] = true
		} else {
			c.Anchor("Runner." + n)
			return nil
		}
	}
	type ppath struct {
		eff      int64
		exit     string
		pos, neg bool
	}
	type key struct {
		op    int64
		which int
	}
	paths := map[key][]ppath{}
	broken := map[int64]string{}
	for _, cl := range m.clauses {
		pe := &pathEnum{info: info, opField: opField, mask: m.mask, limit: 4000, ok: true}
		sps := pe.paths(cl.cc.Body, -1)
		for _, l := range cl.labels {
			if !pe.ok {
				broken[l.op] = pe.why
				continue
			}
			k := key{l.op, 0}
			if l.back {
				k.which = 1
			} else if l.back2 {
				k.which = 2
			}
			for _, sp := range sps {
				pp := ppath{}
				last := ""
				for _, e := range sp.events {
					if e.only >= 0 && e.only != l.op {
						continue
					}
					switch e.fn {
					case push1:
						pp.eff++
					case push2:
						pp.eff += 2
					case pop1:
						pp.eff--
					case popN:
						if n, ok := core.ConstInt(info, e.call.Args[0]); ok {
							pp.eff -= n
						} else {
							broken[l.op] = "non-constant stackPopN"
						}
					case advance:
						last = "adv"
					case goTo:
						last = "goto"
					}
					if pushPos[e.fn] {
						pp.pos = true
					}
					if pushNeg[e.fn] {
						pp.neg = true
					}
				}
				if sp.exit == exitContinue {
					pp.exit = last
				} else {
					pp.exit = "fail"
				}
				paths[k] = append(paths[k], pp)
			}
		}
	}
	add := func(s []int64, v int64) []int64 {
		for _, x := range s {
			if x == v {
				return s
			}
		}
		s = append(s, v)
		sort.Slice(s, func(i, j int) bool { return s[i] < s[j] })
		return s
	}
	out := map[int64]*opFx{}
	for op := range m.opName {
		fx := &opFx{why: broken[op]}
		out[op] = fx
		if _, ok := paths[key{op, 0}]; !ok && fx.why == "" {
			fx.why = "no forward clause"
		}
		if fx.why != "" {
			continue
		}
		type frame struct {
			which int
			base  int64
		}
		seen := map[frame]bool{}
		work := []frame{{0, 0}}
		for len(work) > 0 {
			f := work[0]
			work = work[1:]
			if seen[f] {
				continue
			}
			seen[f] = true
			if len(seen) > 64 || f.base > 16 || f.base < -16 {
				fx.why = "the depth of its backtracking frames does not stabilise"
				break
			}
			for _, pp := range paths[key{op, f.which}] {
				d := f.base + pp.eff
				switch pp.exit {
				case "adv":
					fx.hasAdv = true
					fx.adv = add(fx.adv, d)
				case "goto":
					fx.hasGoto = true
					fx.jmp = add(fx.jmp, d)
				default:
					continue
				}
				if pp.pos {
					work = append(work, frame{1, d})
				}
				if pp.neg {
					work = append(work, frame{2, d})
				}
			}
		}
	}
	return out
}

// depth is a grouping-stack depth relative to the node's entry: o when v==0,
// otherwise (unknown v)+o.  Unknowns stand for the depth at a code position
// that is reached only by jumps not yet seen (the body of a loop whose entry
// is a Goto to the loop test).
type depth struct {
	v int
	o int64
}

type posRec struct {
	d    depth    // depth with which the position is reached
	dead bool     // nothing falls through to this position (only jumps reach it)
	hit  bool     // some jump lands here
	ops  *[]int64 // the instruction emitted at this position (filled by the next emit)
	what string
}

type brState struct {
	d       depth
	dead    bool // current position not reachable by fall-through nor by any patched jump
	stack   []*posRec
	pending []*posRec // saved positions equal to the current position
	must    []*posRec // positions only jumps can reach, with code emitted there: some jump has to land on them
	recs    map[types.Object]*posRec
	bind    map[int]depth
	nvar    int
	sig     map[string]bool
	err     string
	trace   []string
}

func (s *brState) clone() *brState {
	n := &brState{d: s.d, dead: s.dead, err: s.err, nvar: s.nvar, sig: map[string]bool{}, bind: map[int]depth{}, recs: map[types.Object]*posRec{}}
	// position records are shared by pointer inside one state only: deep-copy them
	cp := map[*posRec]*posRec{}
	dup := func(r *posRec) *posRec {
		if c, ok := cp[r]; ok {
			return c
		}
		c := *r
		if r.ops != nil {
			o := append([]int64(nil), *r.ops...)
			c.ops = &o
		}
		cp[r] = &c
		return &c
	}
	for _, r := range s.stack {
		n.stack = append(n.stack, dup(r))
	}
	for _, r := range s.pending {
		n.pending = append(n.pending, dup(r))
	}
	for k, r := range s.recs {
		n.recs[k] = dup(r)
	}
	for _, r := range s.must {
		n.must = append(n.must, dup(r))
	}
	n.trace = append(n.trace, s.trace...)
	for k, v := range s.sig {
		n.sig[k] = v
	}
	for k, v := range s.bind {
		n.bind[k] = v
	}
	return n
}

func (s *brState) resolve(d depth) depth {
	for i := 0; d.v != 0 && i < 64; i++ {
		b, ok := s.bind[d.v]
		if !ok {
			break
		}
		d = depth{b.v, b.o + d.o}
	}
	return d
}

func (s *brState) show(d depth) string {
	d = s.resolve(d)
	if d.v == 0 {
		return fmt.Sprintf("%+d", d.o)
	}
	return fmt.Sprintf("u%d%+d", d.v, d.o)
}

// unify requires a == b, binding unknowns where needed.
func (s *brState) unify(a, b depth) bool {
	a, b = s.resolve(a), s.resolve(b)
	switch {
	case a.v == b.v:
		return a.o == b.o
	case a.v != 0:
		s.bind[a.v] = depth{b.v, b.o - a.o}
	default:
		s.bind[b.v] = depth{a.v, a.o - b.o}
	}
	return true
}

type brInterp struct {
	c          *core.Ctx
	m          *opModel
	info       *types.Info
	fx         map[int64]*opFx
	emitAt     map[token.Pos]emitSite
	curIndex   int64
	nChild     int64
	ciParam    types.Object
	fns        map[string]*types.Func
	locals     map[types.Object]int64
	boolLocals map[types.Object]ast.Expr
}

func (bi *brInterp) fail(s *brState, format string, args ...any) {
	if s.err == "" {
		s.err = fmt.Sprintf(format, args...)
	}
}

// constVal evaluates integer expressions over curIndex and len(node.Children).
func (bi *brInterp) constVal(e ast.Expr) (int64, bool) {
	e = ast.Unparen(e)
	if v, ok := core.ConstInt(bi.info, e); ok {
		return v, true
	}
	switch x := e.(type) {
	case *ast.Ident:
		obj := bi.info.ObjectOf(x)
		if obj == bi.ciParam {
			return bi.curIndex, true
		}
		if v, ok := bi.locals[obj]; ok {
			return v, true
		}
	case *ast.CallExpr:
		if id, ok := x.Fun.(*ast.Ident); ok && id.Name == "len" && len(x.Args) == 1 && strings.HasSuffix(types.ExprString(x.Args[0]), ".Children") {
			return bi.nChild, true
		}
	case *ast.BinaryExpr:
		a, ok1 := bi.constVal(x.X)
		b, ok2 := bi.constVal(x.Y)
		if ok1 && ok2 {
			switch x.Op {
			case token.ADD:
				return a + b, true
			case token.SUB:
				return a - b, true
			}
		}
	}
	return 0, false
}

func (bi *brInterp) cond(e ast.Expr) (bool, bool) {
	e = ast.Unparen(e)
	if be, ok := e.(*ast.BinaryExpr); ok {
		a, ok1 := bi.constVal(be.X)
		b, ok2 := bi.constVal(be.Y)
		if ok1 && ok2 {
			switch be.Op {
			case token.LSS:
				return a < b, true
			case token.LEQ:
				return a <= b, true
			case token.GTR:
				return a > b, true
			case token.GEQ:
				return a >= b, true
			case token.EQL:
				return a == b, true
			case token.NEQ:
				return a != b, true
			}
		}
	}
	return false, false
}

type brCondOut struct {
	s   *brState
	val bool
}

// evalCond evaluates a branch condition on state s.  Parts that are constant
// for the concrete child index / child count are computed; every other atom
// (a test on node.M, node.N, emitCapture(node) ...) forks the state once and is
// remembered under its canonical spelling, so that the Before- and After-arms
// of one node, an `if` and the equivalent tagless `switch`, `a > b` and
// `b < a`, or a condition kept in a boolean local, all take consistent sides.
func (bi *brInterp) evalCond(e ast.Expr, s *brState) []brCondOut {
	e = ast.Unparen(e)
	if v, known := bi.cond(e); known {
		return []brCondOut{{s, v}}
	}
	switch x := e.(type) {
	case *ast.UnaryExpr:
		if x.Op == token.NOT {
			out := bi.evalCond(x.X, s)
			for i := range out {
				out[i].val = !out[i].val
			}
			return out
		}
	case *ast.BinaryExpr:
		if x.Op == token.LAND || x.Op == token.LOR {
			var out []brCondOut
			for _, l := range bi.evalCond(x.X, s) {
				if l.val == (x.Op == token.LOR) { // short circuit
					out = append(out, l)
					continue
				}
				out = append(out, bi.evalCond(x.Y, l.s)...)
			}
			return out
		}
	case *ast.Ident:
		if def, ok := bi.boolLocals[bi.info.ObjectOf(x)]; ok {
			return bi.evalCond(def, s)
		}
	}
	key := condKey(e)
	if v, ok := s.sig[key]; ok {
		return []brCondOut{{s, v}}
	}
	t, f := s.clone(), s.clone()
	t.sig[key], f.sig[key] = true, false
	return []brCondOut{{t, true}, {f, false}}
}

func (bi *brInterp) run(stmts []ast.Stmt, states []*brState) []*brState {
	for _, st := range stmts {
		var next []*brState
		for _, s := range states {
			if s.err != "" {
				next = append(next, s)
				continue
			}
			next = append(next, bi.stmt(st, s)...)
		}
		states = next
		if len(states) > 256 {
			for _, s := range states {
				bi.fail(s, "too many symbolic states")
			}
			return states
		}
	}
	return states
}

func (bi *brInterp) popRec(s *brState) *posRec {
	if len(s.stack) == 0 {
		bi.fail(s, "popInt() on an empty position stack")
		return &posRec{what: "?"}
	}
	r := s.stack[len(s.stack)-1]
	s.stack = s.stack[:len(s.stack)-1]
	return r
}

func (bi *brInterp) isCall(e ast.Expr, name string) bool {
	call, ok := ast.Unparen(e).(*ast.CallExpr)
	return ok && core.Callee(bi.info, call) == bi.fns[name]
}

// here returns a record for the current code position.
func (bi *brInterp) here(s *brState) *posRec {
	if s.dead {
		// only jumps will reach this position: its depth is an unknown fixed by the first of them
		s.nvar++
		s.d = depth{s.nvar, 0}
		s.dead = false
		r := &posRec{d: s.d, dead: true}
		s.pending = append(s.pending, r)
		s.must = append(s.must, r)
		return r
	}
	r := &posRec{d: s.d}
	s.pending = append(s.pending, r)
	return r
}

// jumpFx returns the depth change on the jump exit of the instruction at rec.
func (bi *brInterp) jumpFx(s *brState, rec *posRec) (int64, bool) {
	if rec.ops == nil || len(*rec.ops) == 0 {
		bi.fail(s, "patchJump of %s, where no instruction was emitted", rec.what)
		return 0, false
	}
	var j *int64
	for _, op := range *rec.ops {
		fx := bi.fx[op]
		if fx == nil || fx.why != "" || !fx.hasGoto || len(fx.jmp) != 1 {
			bi.fail(s, "patchJump of a %s, which has no single jump exit in the interpreter", bi.m.opName[op])
			return 0, false
		}
		if j != nil && *j != fx.jmp[0] {
			bi.fail(s, "alternative opcodes at one emit site disagree on their jump effect")
			return 0, false
		}
		v := fx.jmp[0]
		j = &v
	}
	return *j, true
}

// arrive: a jump with depth d lands on the position described by tgt.
func (bi *brInterp) arrive(s *brState, d depth, tgt *posRec, from string) {
	tgt.hit = true
	if !s.unify(d, tgt.d) {
		bi.fail(s, "%s arrives with grouping-stack depth %s at %s, which other paths reach with depth %s", from, s.show(d), tgt.what, s.show(tgt.d))
	}
}

func (bi *brInterp) emit(call *ast.CallExpr, s *brState) {
	site, ok := bi.emitAt[call.Pos()]
	if !ok || len(site.ops) == 0 {
		bi.fail(s, "emit site with no evaluated opcode")
		return
	}
	var target *posRec
	if len(call.Args) >= 2 && bi.isCall(call.Args[1], "popInt") {
		target = bi.popRec(s)
	}
	name := bi.m.opsString(site.ops)
	if s.dead {
		bi.fail(s, "%s is emitted where nothing falls through and no jump has been patched to", name)
		return
	}
	ops := append([]int64(nil), site.ops...)
	for _, r := range s.pending {
		r.ops = &ops
		if r.what == "" {
			r.what = "the " + name + " after [" + strings.Join(s.trace, " ") + "]"
		}
	}
	s.pending = nil
	var adv, jmp *int64
	for _, op := range site.ops {
		fx := bi.fx[op]
		if fx == nil || fx.why != "" {
			why := "unknown opcode"
			if fx != nil {
				why = fx.why
			}
			bi.fail(s, "no stack effects for %s: %s", bi.m.opName[op], why)
			return
		}
		if len(fx.adv) > 1 || len(fx.jmp) > 1 {
			bi.fail(s, "%s leaves one exit with several different depths (advance %v, jump %v)", bi.m.opName[op], fx.adv, fx.jmp)
			return
		}
		if fx.hasAdv {
			if adv != nil && *adv != fx.adv[0] {
				bi.fail(s, "alternative opcodes %s disagree on their advance effect", name)
				return
			}
			v := fx.adv[0]
			adv = &v
		} else if adv != nil {
			bi.fail(s, "alternative opcodes %s disagree on falling through", name)
			return
		}
		if fx.hasGoto {
			v := fx.jmp[0]
			jmp = &v
		}
	}
	s.trace = append(s.trace, name)
	if target != nil {
		if jmp == nil {
			bi.fail(s, "%s is given a jump target but never jumps in the interpreter", name)
			return
		}
		bi.arrive(s, depth{s.d.v, s.d.o + *jmp}, target, "the back-jump of "+name)
	}
	if adv != nil {
		s.d.o += *adv
	} else {
		s.dead = true
	}
}

func (bi *brInterp) stmt(st ast.Stmt, s *brState) []*brState {
	switch x := st.(type) {
	case *ast.ExprStmt:
		call, ok := x.X.(*ast.CallExpr)
		if !ok {
			return []*brState{s}
		}
		switch core.Callee(bi.info, call) {
		case bi.fns["emit"], bi.fns["emit1"], bi.fns["emit2"]:
			bi.emit(call, s)
		case bi.fns["pushInt"]:
			if bi.isCall(call.Args[0], "curPos") {
				s.stack = append(s.stack, bi.here(s))
			} else {
				bi.fail(s, "pushInt of something other than curPos()")
			}
		case bi.fns["patchJump"]:
			var rec *posRec
			if bi.isCall(call.Args[0], "popInt") {
				rec = bi.popRec(s)
			} else if id, ok := ast.Unparen(call.Args[0]).(*ast.Ident); ok && s.recs[bi.info.ObjectOf(id)] != nil {
				rec = s.recs[bi.info.ObjectOf(id)]
			} else {
				bi.fail(s, "patchJump of an unknown position")
				return []*brState{s}
			}
			if s.err != "" {
				return []*brState{s}
			}
			j, ok := bi.jumpFx(s, rec)
			if !ok {
				return []*brState{s}
			}
			src := depth{rec.d.v, rec.d.o + j}
			from := "the jump of " + rec.what
			if bi.isCall(call.Args[1], "curPos") {
				if s.dead {
					s.d, s.dead = src, false
				} else if !s.unify(src, s.d) {
					bi.fail(s, "%s arrives with grouping-stack depth %s where the fall-through path has %s", from, s.show(src), s.show(s.d))
				}
			} else if id, ok := ast.Unparen(call.Args[1]).(*ast.Ident); ok && s.recs[bi.info.ObjectOf(id)] != nil {
				bi.arrive(s, src, s.recs[bi.info.ObjectOf(id)], from)
			} else {
				bi.fail(s, "patchJump to an unknown target")
			}
		}
		return []*brState{s}
	case *ast.AssignStmt:
		if len(x.Lhs) == 1 && len(x.Rhs) == 1 {
			if id, ok := x.Lhs[0].(*ast.Ident); ok {
				obj := bi.info.ObjectOf(id)
				if bi.isCall(x.Rhs[0], "popInt") {
					s.recs[obj] = bi.popRec(s)
				} else if bi.isCall(x.Rhs[0], "curPos") {
					r := bi.here(s)
					s.recs[obj] = r
				} else if v, ok := bi.constVal(x.Rhs[0]); ok {
					bi.locals[obj] = v
				} else if isBoolExpr(bi.info, x.Rhs[0]) && x.Tok == token.DEFINE {
					// a condition kept in a local: evaluated where it is tested
					bi.boolLocals[obj] = x.Rhs[0]
				}
			}
		}
		return []*brState{s}
	case *ast.IfStmt:
		branch := func(s *brState, take bool) []*brState {
			if take {
				return bi.run(x.Body.List, []*brState{s})
			}
			if x.Else == nil {
				return []*brState{s}
			}
			if eb, ok := x.Else.(*ast.BlockStmt); ok {
				return bi.run(eb.List, []*brState{s})
			}
			return bi.run([]ast.Stmt{x.Else}, []*brState{s})
		}
		var out []*brState
		for _, o := range bi.evalCond(x.Cond, s) {
			out = append(out, branch(o.s, o.val)...)
		}
		return out
	case *ast.SwitchStmt:
		if x.Tag == nil {
			// an if / else-if chain: clauses in order, the default last
			var out []*brState
			rest := []*brState{s}
			var deflt *ast.CaseClause
			for _, cs := range x.Body.List {
				cc := cs.(*ast.CaseClause)
				if cc.List == nil {
					deflt = cc
					continue
				}
				for _, st := range cc.Body {
					if b, ok := st.(*ast.BranchStmt); ok && b.Tok == token.FALLTHROUGH {
						bi.fail(s, "fallthrough in a tagless switch")
						return []*brState{s}
					}
				}
				var cond ast.Expr
				for _, e := range cc.List {
					if cond == nil {
						cond = e
					} else {
						cond = &ast.BinaryExpr{X: cond, Op: token.LOR, Y: e}
					}
				}
				var next []*brState
				for _, r := range rest {
					for _, o := range bi.evalCond(cond, r) {
						if o.val {
							out = append(out, bi.run(cc.Body, []*brState{o.s})...)
						} else {
							next = append(next, o.s)
						}
					}
				}
				rest = next
			}
			if deflt != nil {
				out = append(out, bi.run(deflt.Body, rest)...)
			} else {
				out = append(out, rest...)
			}
			return out
		}
		tv, ok := bi.constVal(x.Tag)
		if !ok {
			bi.fail(s, "switch on a symbolic value")
			return []*brState{s}
		}
		for _, cs := range x.Body.List {
			cc := cs.(*ast.CaseClause)
			for _, e := range cc.List {
				if v, ok := bi.constVal(e); ok && v == tv {
					return bi.run(cc.Body, []*brState{s})
				}
			}
		}
		return []*brState{s}
	case *ast.ForStmt:
		as, ok := x.Init.(*ast.AssignStmt)
		if !ok || len(as.Lhs) != 1 || x.Cond == nil {
			bi.fail(s, "unsupported loop form")
			return []*brState{s}
		}
		iv := bi.info.ObjectOf(as.Lhs[0].(*ast.Ident))
		start, ok1 := bi.constVal(as.Rhs[0])
		if !ok1 {
			bi.fail(s, "symbolic loop start")
			return []*brState{s}
		}
		states := []*brState{s}
		for i := start; i < start+64; i++ {
			bi.locals[iv] = i
			v, k := bi.cond(x.Cond)
			if !k {
				for _, st := range states {
					bi.fail(st, "symbolic loop bound")
				}
				break
			}
			if !v {
				break
			}
			states = bi.run(x.Body.List, states)
		}
		return states
	case *ast.RangeStmt:
		// for range N / for i := range N with N known for this child index
		n, ok := bi.constVal(x.X)
		if tv, has := bi.info.Types[x.X]; !ok || !has || tv.Type == nil {
			bi.fail(s, "range over a symbolic value")
			return []*brState{s}
		} else if b, isB := tv.Type.Underlying().(*types.Basic); !isB || b.Info()&types.IsInteger == 0 {
			bi.fail(s, "range over a non-integer")
			return []*brState{s}
		}
		if n > 64 {
			bi.fail(s, "loop bound too large")
			return []*brState{s}
		}
		states := []*brState{s}
		for i := int64(0); i < n; i++ {
			if id, ok := x.Key.(*ast.Ident); ok && id.Name != "_" {
				bi.locals[bi.info.ObjectOf(id)] = i
			}
			states = bi.run(x.Body.List, states)
		}
		return states
	case *ast.BlockStmt:
		return bi.run(x.List, []*brState{s})
	case *ast.ReturnStmt:
		bi.fail(s, "return inside an arm")
	}
	return []*brState{s}
}

func RBracket(c *core.Ctx) {
	c.Rule("R-BRACKET", "for every interior node kind, the instructions emitFragment emits before and after each child keep the grouping stack balanced along every execution path through the template — fall-through, Lazybranch alternatives, Goto joins and loop back-jumps all reach each code position with one depth — the node is left at its entry depth and the writer's position stack is left empty (symbolic interpretation of the arms; per-opcode exit depths are computed from the interpreter's clauses, backtracking clauses included)", 14)
	m := buildOpModel(c)
	if !m.ok {
		c.Anchor("bytecode model")
		return
	}
	fx := stackEffects(c, m)
	if fx == nil {
		return
	}
	p := c.P
	syn := p.Pkg("syntax")
	bi := &brInterp{c: c, m: m, info: syn.TypesInfo, fx: fx, emitAt: map[token.Pos]emitSite{}, fns: map[string]*types.Func{}}
	for _, s := range m.emits {
		bi.emitAt[s.call.Pos()] = s
	}
	for _, n := range []string{"emit", "emit1", "emit2", "pushInt", "popInt", "patchJump", "curPos"} {
		f := p.LookupFunc("syntax", "writer."+n)
		if f == nil {
			c.Anchor("syntax.writer." + n)
			return
		}
		bi.fns[n] = f
	}
	params := m.emitFn.Type.Params.List
	var pnames []*ast.Ident
	for _, f := range params {
		pnames = append(pnames, f.Names...)
	}
	if len(pnames) < 3 {
		c.Anchor("parameters of emitFragment")
		return
	}
	bi.ciParam = syn.TypesInfo.Defs[pnames[2]]
	arm := map[int64]*ast.CaseClause{}
	for _, st := range m.emitSw.Body.List {
		cc := st.(*ast.CaseClause)
		for _, e := range cc.List {
			if v, ok := core.ConstInt(syn.TypesInfo, e); ok {
				arm[v] = cc
			}
		}
	}
	kinds := []struct {
		name   string
		counts []int64
	}{
		{"NtAlternate", []int64{2, 3, 4}}, {"NtBackRefCond", []int64{1, 2}}, {"NtExprCond", []int64{2, 3}},
		{"NtLoop", []int64{1}}, {"NtLazyloop", []int64{1}}, {"NtCapture", []int64{1}}, {"NtGroup", []int64{1}},
		{"NtPosLook", []int64{1}}, {"NtNegLook", []int64{1}}, {"NtAtomic", []int64{1}}, {"NtConcatenate", []int64{1, 3}},
	}
	c.Visit("syntax.(*writer).emitFragment")
	for _, k := range kinds {
		nt, ok := m.ntByNm[k.name]
		if !ok {
			c.Anchor("syntax." + k.name)
			continue
		}
		before, after := arm[nt|m.before], arm[nt|m.after]
		if before == nil || after == nil {
			c.Bad("emitFragment / "+k.name+" has Before and After arms", m.emitSw.Pos(), "missing arm")
			continue
		}
		for _, n := range k.counts {
			bi.nChild = n
			states := []*brState{{sig: map[string]bool{}, bind: map[int]depth{}, recs: map[types.Object]*posRec{}}}
			for i := int64(0); i < n; i++ {
				bi.curIndex = i
				bi.locals = map[types.Object]int64{}
				bi.boolLocals = map[types.Object]ast.Expr{}
				states = bi.run(before.Body, states)
				for _, s := range states {
					// the child's code: reached by fall-through or by jumps seen later; leaves the depth as it found it
					if s.err == "" && s.dead {
						bi.fail(s, "child %d is emitted where nothing falls through and no jump can land (no position saved there)", i)
					}
					s.pending = nil
					s.trace = append(s.trace, fmt.Sprintf("<child %d>", i))
				}
				bi.locals = map[types.Object]int64{}
				bi.boolLocals = map[types.Object]ast.Expr{}
				states = bi.run(after.Body, states)
			}
			bad := ""
			for _, s := range states {
				if s.err == "" && s.dead {
					bi.fail(s, "nothing reaches the end of the node's code")
				}
				if s.err == "" {
					if d := s.resolve(s.d); d.v != 0 {
						bi.fail(s, "the depth at the end of the node's code is not determined (no jump reaches the loop body)")
					} else if d.o != 0 {
						bi.fail(s, "the node is left with grouping-stack depth %+d relative to its entry", d.o)
					}
				}
				for _, r := range s.must {
					if s.err == "" && !r.hit {
						bi.fail(s, "the code after %s is reached by no jump and no fall-through", strings.Join(s.trace, " "))
					}
				}
				if s.err == "" && len(s.stack) != 0 {
					bi.fail(s, "%d saved code position(s) are never consumed", len(s.stack))
				}
				if s.err != "" && bad == "" {
					var sig []string
					for k2, v := range s.sig {
						sig = append(sig, fmt.Sprintf("%s=%v", k2, v))
					}
					sort.Strings(sig)
					bad = fmt.Sprintf("%s  [emitted: %s] [under: %s]", s.err, strings.Join(s.trace, " "), strings.Join(sig, ", "))
				}
			}
			c.Check(bad == "", fmt.Sprintf("emitFragment / %s with %d child(ren) is balanced", k.name, n), before.Pos(), "%d symbolic path(s); %s", len(states), bad)
		}
	}
}

// ---------------------------------------------------------------------------
// R-EMPTYITER: every opcode that closes a group loop tests for an empty
// iteration.
//
// A loop-closing opcode is recognised from the interpreter itself: one of its
// clauses (forward or backtracking) has a path that pushes a new mark on the
// grouping stack and then jumps back (goTo).  If the body matched the empty
// string such an opcode must not iterate again — otherwise (x??)* style loops
// spin until the count or the stack limit is reached and record phantom
// captures.  The test compares the current text position with the saved mark:
// `pos != mark`, or `matched := pos - mark; matched != 0`.
// ---------------------------------------------------------------------------

func REmptyIter(c *core.Ctx) {
	c.Rule("R-EMPTYITER", "every interpreter opcode that closes a group loop (some clause of it pushes a new mark and jumps back to the loop body) contains, in one of its clauses, a test for an empty iteration: an ==/!= comparison of two saved/current text positions, or of their difference with 0", 4)
	m := buildOpModel(c)
	if !m.ok {
		c.Anchor("bytecode model")
		return
	}
	p := c.P
	info := p.Pkg("").TypesInfo
	fn := func(n string) *types.Func { return p.LookupFunc("", "Runner."+n) }
	push1, push2, goTo := fn("stackPush"), fn("stackPush2"), fn("goTo")
	posFns := map[*types.Func]bool{}
	for _, n := range []string{"textPos", "stackPeek", "stackPeekN", "trackPeek", "trackPeekN"} {
		if f := fn(n); f != nil {
			posFns[f] = true
		} else {
			c.Anchor("Runner." + n)
			return
		}
	}
	opField := p.LookupField("", "Runner", "operator")
	if push1 == nil || push2 == nil || goTo == nil || opField == nil {
		c.Anchor("Runner.stackPush / stackPush2 / goTo / operator")
		return
	}
	closers := map[int64]bool{}
	byOp := map[int64][]*clause{}
	for _, cl := range m.clauses {
		pe := &pathEnum{info: info, opField: opField, mask: m.mask, limit: 4000, ok: true}
		sps := pe.paths(cl.cc.Body, -1)
		for _, l := range cl.labels {
			byOp[l.op] = append(byOp[l.op], cl)
			if !pe.ok {
				continue
			}
			for _, sp := range sps {
				pushed, jumped := false, false
				for _, e := range sp.events {
					if e.only >= 0 && e.only != l.op {
						continue
					}
					if e.fn == push1 || e.fn == push2 {
						pushed = true
					}
					if e.fn == goTo && pushed {
						jumped = true
					}
				}
				if jumped {
					closers[l.op] = true
				}
			}
		}
	}
	if len(closers) == 0 {
		c.Anchor("an opcode clause that pushes a mark and jumps back")
		return
	}
	var ops []int64
	for op := range closers {
		ops = append(ops, op)
	}
	sort.Slice(ops, func(i, j int) bool { return ops[i] < ops[j] })
	c.Visit("regexp2.(*Runner).executeDefault")
	for _, op := range ops {
		found := ""
		for _, cl := range byOp[op] {
			// locals defined in the clause
			defs := map[types.Object]ast.Expr{}
			ast.Inspect(cl.cc, func(x ast.Node) bool {
				if as, ok := x.(*ast.AssignStmt); ok && as.Tok == token.DEFINE && len(as.Lhs) == len(as.Rhs) {
					for i, l := range as.Lhs {
						if id, ok := l.(*ast.Ident); ok {
							defs[info.ObjectOf(id)] = as.Rhs[i]
						}
					}
				}
				return true
			})
			var isPos, isDiff func(e ast.Expr, d int) bool
			isPos = func(e ast.Expr, d int) bool {
				e = ast.Unparen(e)
				if d > 4 {
					return false
				}
				switch x := e.(type) {
				case *ast.CallExpr:
					return posFns[core.Callee(info, x)]
				case *ast.Ident:
					if rhs, ok := defs[info.ObjectOf(x)]; ok {
						return isPos(rhs, d+1)
					}
				}
				return false
			}
			isDiff = func(e ast.Expr, d int) bool {
				e = ast.Unparen(e)
				if d > 4 {
					return false
				}
				switch x := e.(type) {
				case *ast.BinaryExpr:
					return x.Op == token.SUB && isPos(x.X, d+1) && isPos(x.Y, d+1)
				case *ast.Ident:
					if rhs, ok := defs[info.ObjectOf(x)]; ok {
						return isDiff(rhs, d+1)
					}
				}
				return false
			}
			ast.Inspect(cl.cc, func(x ast.Node) bool {
				be, ok := x.(*ast.BinaryExpr)
				if !ok || (be.Op != token.EQL && be.Op != token.NEQ) || found != "" {
					return true
				}
				if isPos(be.X, 0) && isPos(be.Y, 0) {
					found = types.ExprString(be) + " at " + p.Pos(be.Pos())
				}
				if k, isC := core.ConstInt(info, be.Y); isC && k == 0 && isDiff(be.X, 0) {
					found = types.ExprString(be) + " at " + p.Pos(be.Pos())
				}
				return true
			})
		}
		pos := token.NoPos
		if len(byOp[op]) > 0 {
			pos = byOp[op][0].cc.Pos()
		}
		c.Check(found != "", fmt.Sprintf("executeDefault / %s tests for an empty iteration before looping again", m.opName[op]), pos,
			"no clause of %s compares the current text position with the saved mark: an iteration that matched nothing is repeated (phantom captures, exhausted {m,n} budget, or a spin up to the stack limit); found: %s", m.opName[op], found)
	}
}
