package rules

import (
	"fmt"
	"go/token"
	"go/types"
	"sort"
	"strings"

	"golang.org/x/tools/go/ssa"

	"regexlint/internal/core"
)

// ---------------------------------------------------------------------------
// C02: every public entry point reports the same matches
// ---------------------------------------------------------------------------

var matchingEntryPoints = []string{
	"Regexp.FindStringMatch", "Regexp.FindRunesMatch", "Regexp.FindStringMatchStartingAt", "Regexp.FindRunesMatchStartingAt",
	"Regexp.FindAllStringIndex", "Regexp.FindAllRunesIndex", "Regexp.FindNextMatch", "Regexp.MatchString", "Regexp.MatchRunes",
	"Regexp.Replace", "Regexp.ReplaceFunc", "Regexp.Split",
}

func RFunnel(c *core.Ctx) {
	c.Rule("R-FUNNEL", "every matching entry point of *Regexp (and every exported method of compat.Regexp that matches) reaches (*Runner).scan in the call graph; the interpreter and the default candidate finder are called from scan only", 14)
	p := c.P
	cg := p.CallGraph()
	scan := p.SSAFunc(p.LookupFunc("", "Runner.scan"))
	exec := p.SSAFunc(p.LookupFunc("", "executeDefault"))
	ffc := p.SSAFunc(p.LookupFunc("", "findFirstCharDefault"))
	if scan == nil || exec == nil || ffc == nil {
		c.Anchor("Runner.scan / executeDefault / findFirstCharDefault")
		return
	}
	for _, name := range matchingEntryPoints {
		fn := p.SSAFunc(p.LookupFunc("", name))
		if fn == nil {
			c.Anchor("regexp2." + name)
			continue
		}
		reach := p.Reachable([]*ssa.Function{fn})
		c.Check(reach[scan], "regexp2."+name+" / reaches scan", fn.Pos(), "all matching goes through the one scan loop")
	}
	// compat: every exported method whose result depends on matching reaches scan
	compatT, _ := p.Pkg("compat").Types.Scope().Lookup("Regexp").(*types.TypeName)
	if compatT == nil {
		c.Anchor("compat.Regexp")
	} else {
		ms := p.SSA().MethodSets.MethodSet(types.NewPointer(compatT.Type()))
		for i := 0; i < ms.Len(); i++ {
			o := ms.At(i).Obj()
			if !o.Exported() || !(strings.HasPrefix(o.Name(), "Find") || strings.HasPrefix(o.Name(), "Match")) {
				continue
			}
			fn := p.SSA().MethodValue(ms.At(i))
			if fn == nil || fn.Blocks == nil {
				continue
			}
			reach := p.Reachable([]*ssa.Function{fn})
			c.Check(reach[scan], "compat.(*Regexp)."+o.Name()+" / reaches scan", fn.Pos(), "adapter methods delegate to the regexp2 entry points")
		}
	}
	for _, target := range []*ssa.Function{exec, ffc} {
		node := cg.Nodes[target]
		var callers []string
		ok := true
		if node != nil {
			for _, e := range node.In {
				if e.Caller.Func == nil || !core.InModule(e.Caller.Func) || p.IsTestFile(e.Caller.Func.Pos()) {
					continue
				}
				callers = append(callers, core.SSAName(e.Caller.Func))
				if e.Caller.Func != scan {
					ok = false
				}
			}
		}
		sort.Strings(callers)
		c.Check(ok && len(callers) > 0, "regexp2."+target.Name()+" / called only from scan", target.Pos(), "callers: %s", strings.Join(callers, ", "))
	}
}

// matchUsesRestricted: v (a *Match) is only compared with nil or read through
// RuneIndex / RuneLength / textpos.
func matchUsesRestricted(v ssa.Value, allowed map[*types.Var]bool, seen map[ssa.Value]bool) (bool, string) {
	if seen[v] {
		return true, ""
	}
	seen[v] = true
	for _, r := range core.Referrers(v) {
		switch x := r.(type) {
		case *ssa.BinOp:
			if (x.Op == token.EQL || x.Op == token.NEQ) && (core.IsNilConst(x.X) || core.IsNilConst(x.Y)) {
				continue
			}
			return false, "used in " + x.String()
		case *ssa.Phi:
			if ok, why := matchUsesRestricted(x, allowed, seen); !ok {
				return false, why
			}
		case *ssa.FieldAddr:
			if x.X != v {
				continue
			}
			f := core.FieldVarOfAddr(x)
			if allowed[f] {
				// must only be loaded
				for _, rr := range core.Referrers(x) {
					if u, ok := rr.(*ssa.UnOp); ok && u.Op == token.MUL {
						continue
					}
					if _, ok := rr.(*ssa.DebugRef); ok {
						continue
					}
					return false, "field " + f.Name() + " is not just read"
				}
				continue
			}
			// embedded chain: Group -> Capture -> RuneIndex
			if f != nil && (core.BaseName(f) == "Group" || core.BaseName(f) == "Capture") {
				if ok, why := embeddedOnly(x, allowed); !ok {
					return false, why
				}
				continue
			}
			return false, "reads field " + f.Name()
		case *ssa.DebugRef:
		case *ssa.Return:
			return false, "returned"
		case *ssa.Store:
			return false, "stored"
		case ssa.CallInstruction:
			return false, "passed to " + x.Common().Value.String()
		case *ssa.MakeInterface, *ssa.UnOp:
			return false, "escapes through " + r.String()
		default:
			return false, "used by " + r.String()
		}
	}
	return true, ""
}

func embeddedOnly(fa *ssa.FieldAddr, allowed map[*types.Var]bool) (bool, string) {
	for _, r := range core.Referrers(fa) {
		switch x := r.(type) {
		case *ssa.FieldAddr:
			f := core.FieldVarOfAddr(x)
			if allowed[f] {
				for _, rr := range core.Referrers(x) {
					if u, ok := rr.(*ssa.UnOp); ok && u.Op == token.MUL {
						continue
					}
					if _, ok := rr.(*ssa.DebugRef); ok {
						continue
					}
					return false, "field " + f.Name() + " is not just read"
				}
				continue
			}
			if f != nil && (core.BaseName(f) == "Group" || core.BaseName(f) == "Capture") {
				if ok, why := embeddedOnly(x, allowed); !ok {
					return false, why
				}
				continue
			}
			return false, "reads field " + f.Name()
		case *ssa.DebugRef:
		default:
			return false, "used by " + r.String()
		}
	}
	return true, ""
}

func RQuick(c *core.Ctx) {
	c.Rule("R-QUICK", "wherever the capture-free quick program may be active (functions that store re.quickCode into Runner.code, the callee they hand that runner to, and callers of run(quick=true, textInfo=nil)) the *Match returned by scan is only compared with nil or read through RuneIndex/RuneLength/textpos; run selects the quick program only under quick && textInfo == nil", 4)
	p := c.P
	scan := p.SSAFunc(p.LookupFunc("", "Runner.scan"))
	run := p.SSAFunc(p.LookupFunc("", "Regexp.run"))
	runnerCode := p.LookupField("", "Runner", "code")
	reQuick := p.LookupField("", "Regexp", "quickCode")
	allowed := map[*types.Var]bool{}
	for _, f := range [][2]string{{"Capture", "RuneIndex"}, {"Capture", "RuneLength"}, {"Match", "textpos"}} {
		v := p.LookupField("", f[0], f[1])
		if v == nil {
			c.Anchor("regexp2." + f[0] + "." + f[1])
			return
		}
		allowed[v] = true
	}
	if scan == nil || run == nil || runnerCode == nil || reQuick == nil {
		c.Anchor("Runner.scan / Regexp.run / Runner.code / Regexp.quickCode")
		return
	}
	quickFns := map[*ssa.Function]bool{}
	for _, fn := range p.ModuleFuncs() {
		for _, b := range fn.Blocks {
			for _, ins := range b.Instrs {
				st, ok := ins.(*ssa.Store)
				if !ok || core.FieldVarOfAddr(st.Addr) != runnerCode {
					continue
				}
				if _, ok := core.LoadOfField(st.Val, reQuick); !ok {
					continue
				}
				quickFns[fn] = true
				// runner handed to module callees
				runnerAddr := st.Addr.(*ssa.FieldAddr).X
				for _, r := range core.Referrers(runnerAddr) {
					if ci, ok := r.(ssa.CallInstruction); ok {
						if cal := ci.Common().StaticCallee(); cal != nil && core.InModule(cal) && cal != scan && core.BaseName(cal) != "putRunner" && !strings.HasPrefix(core.BaseName(cal), "decodeString") {
							quickFns[cal] = true
						}
					}
				}
				if fn == run {
					// guard: quick && textInfo == nil
					var quickP, tiP *ssa.Parameter
					for _, prm := range fn.Params {
						switch prm.Name() {
						case "quick":
							quickP = prm
						case "textInfo":
							tiP = prm
						}
					}
					gq, gt := false, false
					for _, f := range core.FactsAtBlock(b) {
						if f.Cond == quickP && f.Val {
							gq = true
						}
						if bin, ok := f.Cond.(*ssa.BinOp); ok && bin.Op == token.EQL && f.Val && bin.X == tiP && core.IsNilConst(bin.Y) {
							gt = true
						}
					}
					c.Check(gq && gt, "regexp2.(*Regexp).run / quick program only under quick && textInfo == nil", st.Pos(), "captures are elided in the quick program; a caller that receives match text metadata may read them")
				}
			}
		}
	}
	if len(quickFns) == 0 {
		c.Anchor("stores of re.quickCode into Runner.code")
		return
	}
	var names []string
	for fn := range quickFns {
		names = append(names, core.SSAName(fn))
	}
	sort.Strings(names)
	c.Note("R-QUICK: quick program may be active in: %s", strings.Join(names, ", "))
	for _, fn := range p.ModuleFuncs() {
		name := core.SSAName(fn)
		n := 0
		for _, b := range fn.Blocks {
			for _, ins := range b.Instrs {
				call, ok := ins.(*ssa.Call)
				if !ok {
					continue
				}
				cal := call.Call.StaticCallee()
				check := false
				if cal == scan && quickFns[fn] && fn != run {
					check = true
				}
				if cal == run {
					// quick=true and textInfo=nil constants
					if len(call.Call.Args) >= 6 {
						q, isC := call.Call.Args[1].(*ssa.Const)
						if isC && q.Value != nil && q.Value.String() == "true" && core.IsNilConst(call.Call.Args[5]) {
							check = true
						}
					}
				}
				if !check {
					continue
				}
				n++
				c.Visit(name)
				// the *Match is extract #0
				okAll, why := true, ""
				for _, r := range core.Referrers(call) {
					switch x := r.(type) {
					case *ssa.Extract:
						if x.Index == 0 {
							if ok, w := matchUsesRestricted(x, allowed, map[ssa.Value]bool{}); !ok {
								okAll, why = false, w
							}
						}
					case *ssa.Return:
						okAll, why = false, "the quick match is returned to the caller"
					}
				}
				c.Check(okAll, fmt.Sprintf("%s / quick match #%d is only nil-tested or read for position", name, n), call.Pos(), "%s", why)
			}
		}
	}
}

func RRtlFilter(c *core.Ctx) {
	c.Rule("R-RTLFILTER", "the raw-string prefix filter (a left-to-right byte search) is invoked only where RightToLeft() is known false, and newStringPrefixFilter builds no filter for a right-to-left program", 3)
	p := c.P
	filterField := p.LookupField("", "Regexp", "stringPrefixFilter")
	rtl := p.SSAFunc(p.LookupFunc("", "Regexp.RightToLeft"))
	codeRTL := p.LookupField("syntax", "Code", "RightToLeft")
	if filterField == nil || rtl == nil || codeRTL == nil {
		c.Anchor("Regexp.stringPrefixFilter / Regexp.RightToLeft / syntax.Code.RightToLeft")
		return
	}
	n := 0
	for _, fn := range p.ModuleFuncs() {
		for _, b := range fn.Blocks {
			for _, ins := range b.Instrs {
				call, ok := ins.(*ssa.Call)
				if !ok || call.Call.StaticCallee() != nil || call.Call.IsInvoke() {
					continue
				}
				if _, ok := core.LoadOfField(call.Call.Value, filterField); !ok {
					continue
				}
				n++
				c.Visit(core.SSAName(fn))
				guarded := false
				for _, f := range core.FactsAtBlock(b) {
					cond, val := f.Cond, f.Val
					if u, ok := cond.(*ssa.UnOp); ok && u.Op == token.NOT {
						cond, val = u.X, !val
					}
					if rc, ok := cond.(*ssa.Call); ok && rc.Call.StaticCallee() == rtl && !val {
						guarded = true
					}
				}
				c.Check(guarded, fmt.Sprintf("%s / stringPrefixFilter call #%d under !RightToLeft()", core.SSAName(fn), n), call.Pos(), "a forward byte search cannot propose candidates for a scan that starts at the end of the input")
			}
		}
	}
	if n == 0 {
		c.Anchor("calls through Regexp.stringPrefixFilter")
	}
	nf := p.SSAFunc(p.LookupFunc("", "newStringPrefixFilter"))
	if nf == nil {
		c.Anchor("newStringPrefixFilter")
		return
	}
	okAll, nret := true, 0
	for _, b := range nf.Blocks {
		ret, ok := b.Instrs[len(b.Instrs)-1].(*ssa.Return)
		if !ok || core.IsNilConst(ret.Results[0]) {
			continue
		}
		nret++
		g := false
		for _, f := range core.FactsAtBlock(b) {
			if _, ok := core.LoadOfField(f.Cond, codeRTL); ok && !f.Val {
				g = true
			}
		}
		if !g {
			okAll = false
		}
	}
	c.Check(okAll && nret > 0, "newStringPrefixFilter / no filter for a right-to-left program", nf.Pos(), "%d non-nil returns, each dominated by code.RightToLeft == false", nret)
}

// ---------------------------------------------------------------------------
// R-ORIGIN: a candidate position proposed by the prefix filter never becomes
// the \G origin.
// ---------------------------------------------------------------------------

func ROrigin(c *core.Ctx) {
	c.Rule("R-ORIGIN", "a candidate byte index proposed by the raw-string prefix filter never flows into the textstart argument of scan/run (which becomes Runtextstart, the \\G origin, and the origin of the leading-\\G anchor test) — unless newStringPrefixFilter refuses to build a filter for any program that contains the Start (\\G) opcode", 4)
	p := c.P
	filterField := p.LookupField("", "Regexp", "stringPrefixFilter")
	scan := p.SSAFunc(p.LookupFunc("", "Runner.scan"))
	run := p.SSAFunc(p.LookupFunc("", "Regexp.run"))
	if filterField == nil || scan == nil || run == nil {
		c.Anchor("Regexp.stringPrefixFilter / scan / run")
		return
	}
	// alternative discharge: the filter is never built when the program uses \G
	altOK, altWhy := filterRefusesStartAnchor(c)
	funcs := p.ModuleFuncs()
	tainted := map[ssa.Value]bool{}
	retT := map[*ssa.Function]map[int]bool{}
	// sources
	for _, fn := range funcs {
		for _, b := range fn.Blocks {
			for _, ins := range b.Instrs {
				if call, ok := ins.(*ssa.Call); ok && call.Call.StaticCallee() == nil && !call.Call.IsInvoke() {
					if _, ok := core.LoadOfField(call.Call.Value, filterField); ok {
						tainted[call] = true
					}
				}
			}
		}
	}
	if len(tainted) == 0 {
		c.Anchor("calls through Regexp.stringPrefixFilter")
		return
	}
	for changed := true; changed; {
		changed = false
		mark := func(v ssa.Value) {
			if v != nil && !tainted[v] {
				tainted[v] = true
				changed = true
			}
		}
		for _, fn := range funcs {
			for _, b := range fn.Blocks {
				for _, ins := range b.Instrs {
					switch x := ins.(type) {
					case *ssa.Extract:
						if call, ok := x.Tuple.(*ssa.Call); ok && call.Call.StaticCallee() != nil {
							cal := call.Call.StaticCallee()
							if retT[cal][x.Index] {
								mark(x)
							}
							// pass-through helpers, call-site sensitive: the rune start (result 1) is a
							// function of the byte start argument
							if (core.BaseName(cal) == "decodeStringWithStart" || core.BaseName(cal) == "getRunesAndStart") && x.Index == 1 {
								for i, prm := range cal.Params {
									if prm.Name() == "startAt" && tainted[call.Call.Args[i]] {
										mark(x)
									}
								}
							}
						} else if tainted[x.Tuple] && x.Index == 0 {
							mark(x) // (candidateByteIndex, ok)
						}
					case *ssa.Phi:
						for _, e := range x.Edges {
							if tainted[e] {
								mark(x)
							}
						}
					case *ssa.BinOp:
						if (x.Op == token.ADD || x.Op == token.SUB) && (tainted[x.X] || tainted[x.Y]) {
							mark(x)
						}
					case *ssa.Call:
						cal := x.Call.StaticCallee()
						if cal == nil || !core.InModule(cal) || cal == scan || cal == run || core.BaseName(cal) == "decodeStringWithStart" || core.BaseName(cal) == "getRunesAndStart" {
							continue
						}
						for i, a := range x.Call.Args {
							if tainted[a] && i < len(cal.Params) {
								mark(cal.Params[i])
							}
						}
						if retT[cal][0] && !isTuple(x.Type()) {
							mark(x)
						}
					case *ssa.Return:
						for i, r := range x.Results {
							if tainted[r] && !retT[fn][i] {
								if retT[fn] == nil {
									retT[fn] = map[int]bool{}
								}
								retT[fn][i] = true
								changed = true
							}
						}
					}
				}
			}
		}
	}
	n := 0
	for _, fn := range funcs {
		name := core.SSAName(fn)
		for _, b := range fn.Blocks {
			for _, ins := range b.Instrs {
				call, ok := ins.(*ssa.Call)
				if !ok {
					continue
				}
				cal := call.Call.StaticCallee()
				if cal != scan && cal != run {
					continue
				}
				idx := -1
				for i, prm := range cal.Params {
					if prm.Name() == "textstart" {
						idx = i
					}
				}
				if idx < 0 || !tainted[call.Call.Args[idx]] {
					continue
				}
				n++
				c.Visit(name)
				if altOK {
					c.OK(fmt.Sprintf("%s / filter candidate reaches textstart #%d (no \\G in filtered programs)", name, n), call.Pos(), "%s", altWhy)
				} else {
					c.Bad(fmt.Sprintf("%s / filter candidate becomes the \\G origin", name), call.Pos(), "the candidate byte index found by the prefix filter is passed as textstart, so \\G and the leading-\\G anchor refer to the candidate instead of the caller's start (%s)", altWhy)
				}
			}
		}
	}
	if n == 0 {
		c.OK("no flow from the prefix filter to textstart", token.NoPos, "the candidate is kept apart from the \\G origin")
	}
}

// filterRefusesStartAnchor: newStringPrefixFilter returns non-nil only where a
// call h(code) returned false, and h compares opcodes of code.Codes with
// syntax.Start.
func filterRefusesStartAnchor(c *core.Ctx) (bool, string) {
	p := c.P
	nf := p.SSAFunc(p.LookupFunc("", "newStringPrefixFilter"))
	startOp, ok := constInScope(p.Pkg("syntax").Types, "Start")
	if nf == nil || !ok {
		return false, "newStringPrefixFilter / syntax.Start not found"
	}
	usesStart := func(fn *ssa.Function) bool {
		for _, b := range fn.Blocks {
			for _, ins := range b.Instrs {
				if bin, ok := ins.(*ssa.BinOp); ok && (bin.Op == token.EQL || bin.Op == token.NEQ) {
					for _, side := range []ssa.Value{bin.X, bin.Y} {
						if k, ok := core.IntConst(side); ok && k == startOp && strings.HasSuffix(side.Type().String(), "syntax.InstOp") {
							return true
						}
					}
				}
			}
		}
		return false
	}
	nret, okAll := 0, true
	for _, b := range nf.Blocks {
		ret, isRet := b.Instrs[len(b.Instrs)-1].(*ssa.Return)
		if !isRet || core.IsNilConst(ret.Results[0]) {
			continue
		}
		nret++
		g := false
		for _, f := range core.FactsAtBlock(b) {
			if call, ok := f.Cond.(*ssa.Call); ok && !f.Val {
				if cal := call.Call.StaticCallee(); cal != nil && cal.Blocks != nil && usesStart(cal) {
					g = true
				}
			}
		}
		if !g {
			okAll = false
		}
	}
	if nret > 0 && okAll {
		return true, "every non-nil return of newStringPrefixFilter is dominated by a helper that scans the program for the Start opcode returning false"
	}
	return false, "newStringPrefixFilter does not refuse programs containing the Start opcode"
}
