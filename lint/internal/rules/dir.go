package rules

import (
	"fmt"
	"go/ast"
	"go/token"
	"go/types"
	"strings"

	"golang.org/x/tools/go/ssa"

	"regexlint/internal/core"
)

// ---------------------------------------------------------------------------
// C15: right-to-left mode
// ---------------------------------------------------------------------------

// functions that may move the text position / index the text directly
var dirAccWriters = map[string]string{
	"regexp2.(*Runner).textto":           "absolute reposition (argument comes from a frame, the grouping stack, or pos ± bump())",
	"regexp2.(*Runner).forwardcharnext":  "direction-aware accessor",
	"regexp2.(*Runner).backwardnext":     "direction-aware accessor",
	"regexp2.(*Runner).runematch":        "direction-aware accessor",
	"regexp2.(*Runner).refmatch":         "direction-aware accessor",
	"regexp2.(*Runner).scan":             "attempt loop (bump/stoppos, checked by C07)",
	"regexp2.findFirstCharDefault":       "candidate finder: sets the next attempt position",
	"regexp2.findTrailingFixedLengthEnd": "left-to-right-only finder",
}

func RDirAcc(c *core.Ctx) {
	c.Rule("R-DIRACC", "Runner.Runtextpos is written only by the direction-aware accessors (forwardcharnext, backwardnext, runematch, refmatch), by textto, by scan's attempt loop and by the candidate finders; the interpreter switch itself never moves the position by a raw ±1", 10)
	p := c.P
	textpos := p.LookupField("", "Runner", "Runtextpos")
	if textpos == nil {
		c.Anchor("Runner.Runtextpos")
		return
	}
	ord := map[string]int{}
	for _, fn := range p.ModuleFuncs() {
		name := core.SSAName(fn)
		for _, b := range fn.Blocks {
			for _, ins := range b.Instrs {
				st, ok := ins.(*ssa.Store)
				if !ok || core.FieldVarOfAddr(st.Addr) != textpos {
					continue
				}
				ord[name]++
				c.Visit(name)
				reason, okW := dirAccPermitted(p, fn, map[*ssa.Function]bool{})
				c.Check(okW, fmt.Sprintf("%s / write #%d of Runtextpos", name, ord[name]), st.Pos(), "%s", reason)
			}
		}
	}
}

// dirAccPermitted: fn is one of the listed writers, a left-to-right-only
// finder, or a helper ALL of whose callers (in the VTA call graph) are
// permitted — a few lines factored out of a finder inherit the finder's
// permission; anything the interpreter switch can call does not.
func dirAccPermitted(p *core.Program, fn *ssa.Function, busy map[*ssa.Function]bool) (string, bool) {
	name := core.SSAName(fn)
	if reason, ok := dirAccWriters[name]; ok {
		return reason, true
	}
	if strings.HasPrefix(name, "regexp2.find") && strings.HasSuffix(name, "LeftToRight") {
		return "left-to-right-only finder (selected only for left-to-right programs)", true
	}
	if busy[fn] {
		return "", false
	}
	busy[fn] = true
	defer delete(busy, fn)
	node := p.CallGraph().Nodes[fn]
	if node == nil || len(node.In) == 0 {
		return "", false
	}
	via := ""
	for _, e := range node.In {
		if e.Caller == nil || e.Caller.Func == nil || !core.InModule(e.Caller.Func) {
			return "", false
		}
		// the attempt loop's own permission is not handed down: the interpreter
		// is called from it
		if cn := core.SSAName(e.Caller.Func); cn == "regexp2.(*Runner).scan" {
			return "", false
		}
		if _, ok := dirAccPermitted(p, e.Caller.Func, busy); !ok {
			return "", false
		}
		via = core.SSAName(e.Caller.Func)
	}
	return "helper called only from permitted writers (e.g. " + via + ")", true
}

func RDirBits(c *core.Ctx) {
	c.Rule("R-DIRBITS", "every emit of a text-consuming opcode (the One/Notone/Set families in all their rep/loop/lazy/atomic forms, Multi, Ref) in emitFragment carries the node's direction bit (the opcode expression evaluates to values with the Rtl bit for right-to-left nodes)", 8)
	m := buildOpModel(c)
	if !m.ok {
		c.Anchor("bytecode model")
		return
	}
	consuming := map[int64]bool{}
	for _, kind := range []string{"", "rep", "loop", "lazy", "loopatomic"} {
		for _, fam := range []string{"One", "Notone", "Set"} {
			if v, ok := m.opByNm[fam+kind]; ok {
				consuming[v] = true
			}
		}
	}
	for _, n := range []string{"Multi", "Ref"} {
		if v, ok := m.opByNm[n]; ok {
			consuming[v] = true
		}
	}
	n := 0
	for _, s := range m.emits {
		if s.caseNT == nil {
			continue
		}
		all := len(s.ops) > 0
		for _, op := range s.ops {
			if !consuming[op] {
				all = false
			}
		}
		if !all {
			continue
		}
		n++
		c.Check(s.rtlBit, fmt.Sprintf("%s / emit #%d of %s carries the direction bit", s.fn, n, m.opsString(s.ops)), s.call.Pos(), "opcode expression %s", types.ExprString(s.call.Args[0]))
	}
	// and bits comes from the node being emitted
	p := c.P
	syn := p.Pkg("syntax")
	info := syn.TypesInfo
	okBits := false
	rtlOpt := syn.Types.Scope().Lookup("RightToLeft")
	ast.Inspect(m.emitFn.Body, func(x ast.Node) bool {
		ifs, ok := x.(*ast.IfStmt)
		if !ok {
			return true
		}
		if mentionsRTL(info, ifs.Cond, rtlOpt, nil) && strings.Contains(types.ExprString(ifs.Cond), "node.Options") {
			for _, st := range ifs.Body.List {
				if as, ok := st.(*ast.AssignStmt); ok && as.Tok == token.OR_ASSIGN {
					if v, ok := core.ConstInt(info, as.Rhs[0]); ok && v == m.rtl {
						okBits = true
					}
				}
			}
		}
		return true
	})
	c.Check(okBits, "emitFragment / direction bit derived from node.Options", m.emitFn.Pos(), "`if node.Options&RightToLeft != 0 { bits |= Rtl }`")
}

func RReverse(c *core.Ctx) {
	c.Rule("R-REVERSE", "wherever the parser attaches the current concatenation to its parent (addGroup, addAlternate) it passes it through reverseLeft(), so a right-to-left concatenation is evaluated last-to-first", 4)
	p := c.P
	syn := p.Pkg("syntax")
	info := syn.TypesInfo
	concat := p.LookupField("syntax", "parser", "concatenation")
	addChild := p.LookupFunc("syntax", "RegexNode.addChild")
	reverse := p.LookupFunc("syntax", "RegexNode.reverseLeft")
	if concat == nil || addChild == nil || reverse == nil {
		c.Anchor("parser.concatenation / RegexNode.addChild / RegexNode.reverseLeft")
		return
	}
	n := 0
	for _, fd := range p.FuncDecls(syn) {
		name := core.DeclName(syn, fd)
		for _, call := range core.CallsIn(info, fd.Body, addChild) {
			if len(call.Args) != 1 {
				continue
			}
			mentions := false
			ast.Inspect(call.Args[0], func(x ast.Node) bool {
				if sel, ok := x.(*ast.SelectorExpr); ok && core.FieldOf(info, sel) == concat {
					mentions = true
				}
				return true
			})
			if !mentions {
				continue
			}
			n++
			c.Visit(name)
			inner, isCall := ast.Unparen(call.Args[0]).(*ast.CallExpr)
			c.Check(isCall && core.IsCallTo(info, inner, reverse), fmt.Sprintf("%s / attach #%d of the current concatenation is reversed", name, n), call.Pos(), "argument %s", types.ExprString(call.Args[0]))
		}
	}
	if n == 0 {
		c.Anchor("addChild(p.concatenation…) sites")
	}
}

func RLookDir(c *core.Ctx) {
	c.Rule("R-LOOKDIR", "in scanGroupOpen every arm that creates a lookaround sets the direction first: lookahead arms clear RightToLeft, lookbehind arms (those under the '<' case) set it", 4)
	p := c.P
	syn := p.Pkg("syntax")
	info := syn.TypesInfo
	fd, _ := p.DeclOf(p.LookupFunc("syntax", "parser.scanGroupOpen"))
	rtl, okc := constInScope(syn.Types, "RightToLeft")
	pos, ok1 := constInScope(syn.Types, "NtPosLook")
	neg, ok2 := constInScope(syn.Types, "NtNegLook")
	options := p.LookupField("syntax", "parser", "options")
	if fd == nil || !okc || !ok1 || !ok2 || options == nil {
		c.Anchor("parser.scanGroupOpen / RightToLeft / NtPosLook / NtNegLook / parser.options")
		return
	}
	c.Visit("syntax.(*parser).scanGroupOpen")
	var stack []ast.Node
	n := 0
	ast.Inspect(fd.Body, func(x ast.Node) bool {
		if x == nil {
			stack = stack[:len(stack)-1]
			return true
		}
		stack = append(stack, x)
		cc, ok := x.(*ast.CaseClause)
		if !ok {
			return true
		}
		// does this clause (directly) assign nt = NtPosLook/NtNegLook ?
		creates := false
		var dir string
		for _, st := range cc.Body {
			as, ok := st.(*ast.AssignStmt)
			if !ok || len(as.Rhs) != 1 {
				continue
			}
			if v, ok := core.ConstInt(info, as.Rhs[0]); ok && (v == pos || v == neg) && as.Tok == token.ASSIGN {
				creates = true
			}
			if core.FieldOf(info, as.Lhs[0]) == options {
				switch as.Tok {
				case token.OR_ASSIGN:
					if v, ok := core.ConstInt(info, as.Rhs[0]); ok && v == rtl {
						dir = "set"
					}
				case token.AND_ASSIGN:
					if u, ok := ast.Unparen(as.Rhs[0]).(*ast.UnaryExpr); ok && u.Op == token.XOR {
						if v, ok := core.ConstInt(info, u.X); ok && v == rtl {
							dir = "clear"
						}
					}
				case token.AND_NOT_ASSIGN:
					if v, ok := core.ConstInt(info, as.Rhs[0]); ok && v == rtl {
						dir = "clear"
					}
				}
			}
		}
		if !creates {
			return true
		}
		n++
		// lookbehind iff an enclosing case clause lists '<'
		behind := false
		for _, anc := range stack[:len(stack)-1] {
			if acc, ok := anc.(*ast.CaseClause); ok {
				for _, e := range acc.List {
					if v, ok := core.ConstInt(info, e); ok && v == '<' {
						behind = true
					}
				}
			}
		}
		want := "clear"
		if behind {
			want = "set"
		}
		label := ""
		for _, e := range cc.List {
			label += types.ExprString(e)
		}
		c.Check(dir == want, fmt.Sprintf("scanGroupOpen / lookaround arm #%d (%s, lookbehind=%v) sets the direction", n, label, behind), cc.Pos(), "RightToLeft must be %s before the node is created; found %q", want, dir)
		return true
	})
	if n == 0 {
		c.Anchor("lookaround arms in scanGroupOpen")
	}
}

// ---------------------------------------------------------------------------
// R-ANCHORSIB: inside the direction arms of the anchor pre-filter every anchor
// is tested on its own.  The anchors differ in what they allow (End: only the
// very end; EndZ: the end or just before a final newline; Beginning vs
// Start), and the left-to-right arm treats each separately; an arm that folds
// two of them into one mask test applies one anchor's position rule to the
// other.
// ---------------------------------------------------------------------------

func RAnchorSib(c *core.Ctx) {
	c.Rule("R-ANCHORSIB", "in findFirstCharDefault, below the outer dispatch test, every test of the published anchor set (`r.code.Anchors & M`) uses a mask M that is a single anchor bit, in the left-to-right and in the right-to-left arm alike: each anchor has its own position rule", 6)
	p := c.P
	pk := p.Pkg("")
	info := pk.TypesInfo
	fd, _ := p.DeclOf(p.LookupFunc("", "findFirstCharDefault"))
	anchors := p.LookupField("syntax", "Code", "Anchors")
	if fd == nil || anchors == nil {
		c.Anchor("findFirstCharDefault / syntax.Code.Anchors")
		return
	}
	c.Visit("regexp2.findFirstCharDefault")
	// the outer dispatch: the first if statement of the body whose condition tests Anchors
	var outer *ast.IfStmt
	for _, st := range fd.Body.List {
		if ifs, ok := st.(*ast.IfStmt); ok && outer == nil {
			outer = ifs
		}
	}
	if outer == nil {
		c.Anchor("the anchor dispatch of findFirstCharDefault")
		return
	}
	n := 0
	ast.Inspect(outer.Body, func(x ast.Node) bool {
		be, ok := x.(*ast.BinaryExpr)
		if !ok || be.Op != token.AND {
			return true
		}
		var mask ast.Expr
		if core.FieldOf(info, be.X) == anchors {
			mask = be.Y
		} else if core.FieldOf(info, be.Y) == anchors {
			mask = be.X
		} else {
			return true
		}
		k, ok := core.ConstInt(info, mask)
		if !ok {
			return true
		}
		n++
		c.Check(k > 0 && k&(k-1) == 0, fmt.Sprintf("findFirstCharDefault / anchor test #%d inside the direction arms names one anchor", n), be.Pos(),
			"the mask %s combines several anchors (%#x): they are then subjected to the same position rule, although e.g. EndZ also allows the position before a final newline where End does not", types.ExprString(mask), k)
		return true
	})
	if n == 0 {
		c.Anchor("anchor tests inside the direction arms")
	}
}
