package rules

import (
	"fmt"
	"go/ast"
	"go/token"
	"go/types"
	"sort"

	"golang.org/x/tools/go/cfg"

	"regexlint/internal/core"
)

// R-GUARD: every read of the pattern by the parser is dominated by a length
// test.  Abstract interpretation over go/cfg of every function of package
// syntax that uses the parser's position primitives.
//
// Abstract state at a program point:
//   L              a lower bound on p.charsRight()
//   diff[v] = d    for a local int v:  charsRight() >= v + d
//   saved[v] = n   v holds a position saved from p.textpos() at a point where
//                  charsRight() >= n held (p.textto(v) restores that bound)
//
// Requirements (the obligations):
//   rightChar(k)         L >= k+1
//   moveRightGetChar()   L >= 1
//   moveRight(k)         L >= k         (position never passes the end)
//   charAt(saved)        saved[v] >= 1
//   call f(...)          L >= need(f)   where need(f) is the smallest entry
//                        bound under which f's own body is safe (inferred)

type gstate struct {
	ok    bool
	L     int
	diff  map[*types.Var]int
	saved map[*types.Var]int
	// at[v] = k: the current position is v moved k steps forward (only maintained
	// when the analyzer has a textto primitive taking a plain variable)
	at map[*types.Var]int
}

func (s gstate) clone() gstate {
	n := gstate{ok: s.ok, L: s.L, diff: make(map[*types.Var]int, len(s.diff)), saved: make(map[*types.Var]int, len(s.saved)), at: make(map[*types.Var]int, len(s.at))}
	for k, v := range s.at {
		n.at[k] = v
	}
	for k, v := range s.diff {
		n.diff[k] = v
	}
	for k, v := range s.saved {
		n.saved[k] = v
	}
	return n
}

func gjoin(a, b gstate) gstate {
	if !a.ok {
		return b.clone()
	}
	if !b.ok {
		return a.clone()
	}
	n := gstate{ok: true, L: min(a.L, b.L), diff: map[*types.Var]int{}, saved: map[*types.Var]int{}, at: map[*types.Var]int{}}
	for k, v := range a.at {
		if w, ok := b.at[k]; ok && w == v {
			n.at[k] = v
		}
	}
	for k, v := range a.diff {
		if w, ok := b.diff[k]; ok {
			n.diff[k] = min(v, w)
		}
	}
	for k, v := range a.saved {
		if w, ok := b.saved[k]; ok {
			n.saved[k] = min(v, w)
		}
	}
	return n
}

func geq(a, b gstate) bool {
	if a.ok != b.ok || a.L != b.L || len(a.diff) != len(b.diff) || len(a.saved) != len(b.saved) || len(a.at) != len(b.at) {
		return false
	}
	for k, v := range a.at {
		if w, ok := b.at[k]; !ok || w != v {
			return false
		}
	}
	for k, v := range a.diff {
		if w, ok := b.diff[k]; !ok || w != v {
			return false
		}
	}
	for k, v := range a.saved {
		if w, ok := b.saved[k]; !ok || w != v {
			return false
		}
	}
	return true
}

type guardReq struct {
	fn   string
	what string
	pos  token.Pos
	need int
	have int
	ok   bool
}

type guardAnalyzer struct {
	c       *core.Ctx
	info    *types.Info
	prim    map[*types.Func]string // primitive name by method object
	parserT *types.TypeName
	funcs   map[*types.Func]*ast.FuncDecl
	moves   map[*types.Func]bool
	need    map[*types.Func]int
	quiet   bool
	reqs    []guardReq
	manual  []guardReq // sites outside the domain
	curFn   string
	// optional hooks (used by R-CHARGUARD for the interpreter)
	hookCall   func(fn *types.Func, c *ast.CallExpr, s *gstate) // non-primitive method call on the receiver type, before its effect
	hookTextto func(c *ast.CallExpr, s *gstate)                 // after the modelled effect of textto
	hookAssign func(v *types.Var, rhs ast.Expr, s *gstate)      // after `v = rhs` / `v := rhs` was modelled
	clearAt    func(s *gstate)
}

func (a *guardAnalyzer) isParser(e ast.Expr) bool {
	t := a.info.TypeOf(e)
	if t == nil {
		return false
	}
	if p, ok := t.(*types.Pointer); ok {
		t = p.Elem()
	}
	n, ok := types.Unalias(t).(*types.Named)
	return ok && n.Obj() == a.parserT
}

// pcall: is e a call of a method on a parser value?  returns the method.
func (a *guardAnalyzer) pcall(e ast.Expr) (*types.Func, *ast.CallExpr) {
	c, ok := ast.Unparen(e).(*ast.CallExpr)
	if !ok {
		return nil, nil
	}
	sel, ok := c.Fun.(*ast.SelectorExpr)
	if !ok || !a.isParser(sel.X) {
		return nil, nil
	}
	fn := core.Callee(a.info, c)
	if fn == nil {
		return nil, nil
	}
	return fn, c
}

func (a *guardAnalyzer) primName(e ast.Expr) string {
	fn, _ := a.pcall(e)
	if fn == nil {
		return ""
	}
	return a.prim[fn]
}

func (a *guardAnalyzer) localVar(e ast.Expr) *types.Var {
	id, ok := ast.Unparen(e).(*ast.Ident)
	if !ok {
		return nil
	}
	v, _ := a.info.ObjectOf(id).(*types.Var)
	if v == nil || v.IsField() {
		return nil
	}
	return v
}

func (a *guardAnalyzer) require(pos token.Pos, s *gstate, k int, what string) {
	if a.quiet {
		return
	}
	a.reqs = append(a.reqs, guardReq{fn: a.curFn, what: what, pos: pos, need: k, have: s.L, ok: s.L >= k})
}

func (a *guardAnalyzer) outside(pos token.Pos, what string) {
	if a.quiet {
		return
	}
	a.manual = append(a.manual, guardReq{fn: a.curFn, what: what, pos: pos})
}

func (a *guardAnalyzer) shift(s *gstate, k int) {
	s.L -= k
	if s.L < 0 {
		s.L = 0
	}
	for v := range s.at {
		s.at[v] += k
	}
	for v, d := range s.diff {
		if d-k < -6 {
			delete(s.diff, v)
		} else {
			s.diff[v] = d - k
		}
	}
}

func (a *guardAnalyzer) call(fn *types.Func, c *ast.CallExpr, s *gstate) {
	switch a.prim[fn] {
	case "rightChar":
		if k, ok := core.ConstInt(a.info, c.Args[0]); ok {
			a.require(c.Pos(), s, int(k)+1, fmt.Sprintf("rightChar(%d)", k))
		} else {
			a.outside(c.Pos(), "rightChar("+types.ExprString(c.Args[0])+")")
		}
	case "moveRightGetChar":
		a.require(c.Pos(), s, 1, "moveRightGetChar()")
		a.shift(s, 1)
	case "moveRight":
		if k, ok := core.ConstInt(a.info, c.Args[0]); ok {
			a.require(c.Pos(), s, int(k), fmt.Sprintf("moveRight(%d)", k))
			a.shift(s, int(k))
		} else {
			a.outside(c.Pos(), "moveRight("+types.ExprString(c.Args[0])+")")
			s.L = 0
			s.diff = map[*types.Var]int{}
			s.at = map[*types.Var]int{}
		}
	case "moveLeft":
		s.L++
		for v, d := range s.diff {
			s.diff[v] = d + 1
		}
		for v := range s.at {
			s.at[v]--
		}
	case "textto":
		s.at = map[*types.Var]int{}
		if v := a.localVar(c.Args[0]); v != nil {
			s.at[v] = 0
			if l, ok := s.saved[v]; ok {
				s.L = l
				s.diff = map[*types.Var]int{}
				if a.hookTextto != nil {
					a.hookTextto(c, s)
				}
				return
			}
		}
		s.L = 0
		s.diff = map[*types.Var]int{}
		if a.hookTextto != nil {
			a.hookTextto(c, s)
		}
	case "charAt":
		if v := a.localVar(c.Args[0]); v != nil {
			if l, ok := s.saved[v]; ok {
				if !a.quiet {
					a.reqs = append(a.reqs, guardReq{fn: a.curFn, what: "charAt(" + v.Name() + ")", pos: c.Pos(), need: 1, have: l, ok: l >= 1})
				}
				return
			}
		}
		a.outside(c.Pos(), "charAt("+types.ExprString(c.Args[0])+")")
	case "charsRight", "textpos", "rightMost":
	default:
		if a.hookCall != nil {
			a.hookCall(fn, c, s)
		}
		if need := a.need[fn]; need > 0 {
			a.require(c.Pos(), s, need, "call "+fn.Name()+"()")
		}
		if a.moves[fn] {
			s.L = 0
			s.diff = map[*types.Var]int{}
			s.at = map[*types.Var]int{}
		}
	}
}

func (a *guardAnalyzer) eval(e ast.Node, s *gstate) {
	if e == nil {
		return
	}
	switch n := e.(type) {
	case *ast.BinaryExpr:
		if n.Op == token.LAND || n.Op == token.LOR {
			t, f := a.cond(n, *s)
			*s = gjoin(t, f)
			return
		}
	case *ast.CallExpr:
		if fn, c := a.pcall(n); c != nil {
			for _, arg := range c.Args {
				a.eval(arg, s)
			}
			a.call(fn, c, s)
			return
		}
	case *ast.FuncLit:
		return
	case *ast.IndexExpr:
		if a.isPattern(n.X) {
			a.outside(n.Pos(), types.ExprString(n))
		}
	case *ast.SliceExpr:
		if a.isPattern(n.X) {
			a.outside(n.Pos(), types.ExprString(n))
		}
	case *ast.AssignStmt:
		for _, r := range n.Rhs {
			a.eval(r, s)
		}
		for _, l := range n.Lhs {
			if _, ok := l.(*ast.Ident); !ok {
				a.eval(l, s)
			}
		}
		a.assign(n, s)
		return
	case *ast.IncDecStmt:
		if v := a.localVar(n.X); v != nil {
			if d, ok := s.diff[v]; ok {
				if n.Tok == token.INC {
					s.diff[v] = d - 1
				} else {
					s.diff[v] = d + 1
				}
			}
			delete(s.saved, v)
			delete(s.at, v)
			return
		}
	}
	ast.Inspect(e, func(c ast.Node) bool {
		if c == e || c == nil {
			return true
		}
		a.eval(c, s)
		return false
	})
}

func (a *guardAnalyzer) isPattern(e ast.Expr) bool {
	sel, ok := ast.Unparen(e).(*ast.SelectorExpr)
	if !ok || !a.isParser(sel.X) {
		return false
	}
	f := core.FieldOf(a.info, sel)
	return f != nil && core.BaseName(f) == "pattern"
}

func (a *guardAnalyzer) assign(n *ast.AssignStmt, s *gstate) {
	if len(n.Lhs) != len(n.Rhs) {
		for _, l := range n.Lhs {
			if v := a.localVar(l); v != nil {
				delete(s.diff, v)
				delete(s.saved, v)
				delete(s.at, v)
			}
		}
		return
	}
	for i, l := range n.Lhs {
		v := a.localVar(l)
		if v == nil {
			continue
		}
		r := n.Rhs[i]
		switch n.Tok {
		case token.ASSIGN, token.DEFINE:
			delete(s.diff, v)
			delete(s.saved, v)
			delete(s.at, v)
			switch a.primName(r) {
			case "charsRight":
				s.diff[v] = 0
			case "textpos":
				s.saved[v] = s.L
				s.at[v] = 0
			default:
				if call, ok := ast.Unparen(r).(*ast.CallExpr); ok {
					// v := min(..., p.charsRight(), w, ...): v is below every argument, so
					// charsRight() >= v + d for the best d any argument offers
					if kind, args := core.MinMaxCall(a.c.P, a.info, call); kind == "min" {
						best, have := 0, false
						for _, arg := range args {
							if a.primName(arg) == "charsRight" {
								if !have || best < 0 {
									best, have = 0, true
								}
							} else if w := a.localVar(arg); w != nil {
								if d, ok := s.diff[w]; ok && (!have || d > best) {
									best, have = d, true
								}
							}
						}
						if have {
							s.diff[v] = best
						}
					}
				}
				if w := a.localVar(r); w != nil {
					if d, ok := s.diff[w]; ok {
						s.diff[v] = d
					}
					if d, ok := s.saved[w]; ok {
						s.saved[v] = d
					}
					if d, ok := s.at[w]; ok {
						s.at[v] = d
					}
				}
			}
			if a.hookAssign != nil {
				a.hookAssign(v, r, s)
			}
		case token.SUB_ASSIGN, token.ADD_ASSIGN:
			if c, ok := core.ConstInt(a.info, r); ok {
				if d, has := s.diff[v]; has {
					if n.Tok == token.SUB_ASSIGN {
						s.diff[v] = d + int(c)
					} else {
						s.diff[v] = d - int(c)
					}
				}
			} else {
				delete(s.diff, v)
			}
			delete(s.saved, v)
			delete(s.at, v)
		default:
			delete(s.diff, v)
			delete(s.saved, v)
			delete(s.at, v)
		}
	}
}

func (a *guardAnalyzer) availTerm(e ast.Expr, s *gstate) (bool, *types.Var) {
	if a.primName(e) == "charsRight" {
		return true, nil
	}
	if w := a.localVar(e); w != nil {
		if _, ok := s.diff[w]; ok {
			return false, w
		}
	}
	return false, nil
}

func (a *guardAnalyzer) cond(e ast.Expr, s gstate) (t, f gstate) {
	e = ast.Unparen(e)
	switch n := e.(type) {
	case *ast.UnaryExpr:
		if n.Op == token.NOT {
			t, f = a.cond(n.X, s)
			return f, t
		}
	case *ast.BinaryExpr:
		switch n.Op {
		case token.LAND:
			t1, f1 := a.cond(n.X, s)
			t2, f2 := a.cond(n.Y, t1)
			return t2, gjoin(f1, f2)
		case token.LOR:
			t1, f1 := a.cond(n.X, s)
			t2, f2 := a.cond(n.Y, f1)
			return gjoin(t1, t2), f2
		case token.GTR, token.GEQ, token.LSS, token.LEQ, token.EQL, token.NEQ:
			st := s.clone()
			a.eval(n.X, &st)
			a.eval(n.Y, &st)
			t, f = st.clone(), st.clone()
			x, y, op := n.X, n.Y, n.Op
			if _, ok := core.ConstInt(a.info, x); ok {
				x, y = y, x
				switch op {
				case token.GTR:
					op = token.LSS
				case token.GEQ:
					op = token.LEQ
				case token.LSS:
					op = token.GTR
				case token.LEQ:
					op = token.GEQ
				}
			}
			k64, isConst := core.ConstInt(a.info, y)
			k := int(k64)
			isAvail, v := a.availTerm(x, &st)
			if isConst && (isAvail || v != nil) {
				base := 0
				if v != nil {
					base = st.diff[v]
				}
				setGE := func(z *gstate, m int) {
					if m+base > z.L {
						z.L = m + base
					}
				}
				switch op {
				case token.GTR:
					setGE(&t, k+1)
				case token.GEQ:
					setGE(&t, k)
				case token.LSS:
					setGE(&f, k)
				case token.LEQ:
					setGE(&f, k+1)
				case token.EQL:
					setGE(&t, k)
					if k == 0 {
						setGE(&f, 1)
					}
				case token.NEQ:
					setGE(&f, k)
					if k == 0 {
						setGE(&t, 1)
					}
				}
				return t, f
			}
			if xa, _ := a.availTerm(x, &st); xa {
				if w := a.localVar(y); w != nil {
					switch op {
					case token.GEQ:
						t.diff[w] = 0
					case token.GTR:
						t.diff[w] = 1
					case token.LSS:
						f.diff[w] = 0
					case token.LEQ:
						f.diff[w] = 1
					}
					return t, f
				}
			}
			yAvail, _ := a.availTerm(y, &st)
			if w := a.localVar(x); w != nil && yAvail {
				switch op {
				case token.GTR:
					f.diff[w] = 0
				case token.LEQ:
					t.diff[w] = 0
				case token.LSS:
					t.diff[w] = 1
				case token.GEQ:
					f.diff[w] = 1
				}
				return t, f
			}
			return t, f
		}
	case *ast.CallExpr:
		if a.primName(n) == "rightMost" {
			t, f = s.clone(), s.clone()
			if f.L < 1 {
				f.L = 1
			}
			return t, f
		}
	}
	st := s.clone()
	a.eval(e, &st)
	return st.clone(), st.clone()
}

func isBoolExpr(info *types.Info, e ast.Expr) bool {
	tv, ok := info.Types[e]
	if !ok || tv.Type == nil {
		return false
	}
	b, ok := tv.Type.Underlying().(*types.Basic)
	return ok && b.Info()&types.IsBoolean != 0
}

// analyze runs the fixpoint for one function with entry bound entryL and
// returns the number of unmet requirements.
func (a *guardAnalyzer) analyze(fd *ast.FuncDecl, name string, entryL int, record bool) int {
	a.curFn = name
	g := cfg.New(fd.Body, func(*ast.CallExpr) bool { return true })
	in := make([]gstate, len(g.Blocks))
	in[0] = gstate{ok: true, L: entryL, diff: map[*types.Var]int{}, saved: map[*types.Var]int{}, at: map[*types.Var]int{}}
	outT := make([]gstate, len(g.Blocks))
	outF := make([]gstate, len(g.Blocks))
	run := func(bi int) {
		b := g.Blocks[bi]
		s := in[bi].clone()
		nodes := b.Nodes
		var condExpr ast.Expr
		if len(b.Succs) == 2 && len(nodes) > 0 {
			if ce, ok := nodes[len(nodes)-1].(ast.Expr); ok && isBoolExpr(a.info, ce) {
				condExpr = ce
				nodes = nodes[:len(nodes)-1]
			}
		}
		for _, n := range nodes {
			a.eval(n, &s)
		}
		if condExpr != nil {
			outT[bi], outF[bi] = a.cond(condExpr, s)
		} else {
			outT[bi], outF[bi] = s, s
		}
	}
	savedQuiet := a.quiet
	a.quiet = true
	work := []int{0}
	for iter := 0; len(work) > 0 && iter < 20000; iter++ {
		bi := work[len(work)-1]
		work = work[:len(work)-1]
		if !in[bi].ok {
			continue
		}
		run(bi)
		for si, succ := range g.Blocks[bi].Succs {
			o := outT[bi]
			if si == 1 && len(g.Blocks[bi].Succs) == 2 {
				o = outF[bi]
			}
			nj := gjoin(in[succ.Index], o)
			if !geq(nj, in[succ.Index]) {
				in[succ.Index] = nj
				work = append(work, int(succ.Index))
			}
		}
	}
	a.quiet = false
	before := len(a.reqs)
	beforeM := len(a.manual)
	for bi := range g.Blocks {
		if in[bi].ok && g.Blocks[bi].Live {
			run(bi)
		}
	}
	bad := 0
	for _, r := range a.reqs[before:] {
		if !r.ok {
			bad++
		}
	}
	if !record {
		a.reqs = a.reqs[:before]
		a.manual = a.manual[:beforeM]
	}
	a.quiet = savedQuiet
	return bad
}

// guardException is a frozen, individually argued site outside the domain.
type guardException struct {
	fn, what, reason string
}

var guardExceptions = []guardException{
	{"syntax.(*parser).scanGroupOpen", "p.pattern[start:p.textpos()]", "start is p.textpos() saved at entry; the position only moves right of it (or textto(start-1)… is not used on this path); both bounds are positions in [0,len]"},
	{"syntax.(*parser).parseProperty", "p.pattern[startpos:p.textpos()]", "startpos saved from textpos(); loop moves right and at most one moveLeft after a moveRightGetChar, so startpos <= textpos() <= len"},
	{"syntax.(*parser).scanECMACapname", "p.pattern[startpos:savedpos]", "both saved from textpos() in order startpos then savedpos, position is monotone between them"},
	{"syntax.(*parser).scanECMACapname", "p.pattern[startpos:p.textpos()]", "startpos saved from textpos(); textto(savedpos) with savedpos >= startpos is the only rewind"},
	{"syntax.(*parser).scanWord", "p.pattern[startpos:p.textpos()]", "startpos saved from textpos(); one moveLeft only after a moveRightGetChar"},
	{"syntax.(*parser).addToConcatenate", "p.pattern[pos]", "callers pass a saved start position and a count with pos+cch <= currentPos (scanRegex: startpos < endpos <= currentPos; scanReplacement likewise)"},
	{"syntax.(*parser).addToConcatenate", "p.pattern[pos:pos + cch]", "same argument: pos+cch <= currentPos <= len"},
	{"syntax.(*parser).addToConcatenate", "p.pattern[i]", "pos <= i < pos+cch <= currentPos"},
	{"syntax.(*parser).isTrueQuantifier", "charAt(pos)", "pos advances only while --nChars > 0, so pos-startpos < charsRight() at entry"},
	{"syntax.(*parser).scanRegex", "charAt(endpos - 1)", "reached only under startpos < endpos where both are saved positions, so 0 <= endpos-1 < currentPos"},
}

func RGuard(c *core.Ctx) {
	c.Rule("R-GUARD", "every read of the pattern by the parser (rightChar(k), moveRightGetChar(), moveRight(k), charAt(saved), calls to helpers with an inferred entry requirement) is dominated on every path by a length test that proves charsRight() is large enough; direct p.pattern[...] expressions and p.currentPos writes occur only inside the position primitives or at individually argued sites", 170)
	p := c.P
	syn := p.Pkg("syntax")
	pt, _ := syn.Types.Scope().Lookup("parser").(*types.TypeName)
	if pt == nil {
		c.Anchor("syntax.parser")
		return
	}
	a := &guardAnalyzer{c: c, info: syn.TypesInfo, parserT: pt, prim: map[*types.Func]string{}, funcs: map[*types.Func]*ast.FuncDecl{}, moves: map[*types.Func]bool{}, need: map[*types.Func]int{}}
	for _, n := range []string{"rightChar", "moveRightGetChar", "moveRight", "moveLeft", "textto", "charAt", "charsRight", "textpos", "rightMost"} {
		fn := p.LookupFunc("syntax", "parser."+n)
		if fn == nil {
			c.Anchor("syntax.parser." + n)
			return
		}
		a.prim[fn] = n
	}
	patField := p.LookupField("syntax", "parser", "pattern")
	posField := p.LookupField("syntax", "parser", "currentPos")
	if patField == nil || posField == nil {
		c.Anchor("syntax.parser.pattern / currentPos")
		return
	}
	// primitive contracts: the modelled meaning of each accessor, checked on its body
	checkPrimitives(c, a, patField, posField)

	// universe: functions of package syntax that call a parser method or touch p.pattern
	var order []*types.Func
	calls := map[*types.Func]map[*types.Func]bool{}
	for _, fd := range p.FuncDecls(syn) {
		fn, _ := syn.TypesInfo.Defs[fd.Name].(*types.Func)
		if fn == nil || a.prim[fn] != "" {
			continue
		}
		uses := false
		cs := map[*types.Func]bool{}
		ast.Inspect(fd.Body, func(x ast.Node) bool {
			switch y := x.(type) {
			case *ast.CallExpr:
				if cal, cc := a.pcall(y); cc != nil {
					uses = true
					cs[cal] = true
				}
			case *ast.SelectorExpr:
				if f := core.FieldOf(syn.TypesInfo, y); f == patField || f == posField {
					uses = true
				}
			}
			return true
		})
		if uses {
			a.funcs[fn] = fd
			calls[fn] = cs
			order = append(order, fn)
		}
	}
	sort.Slice(order, func(i, j int) bool { return a.funcs[order[i]].Pos() < a.funcs[order[j]].Pos() })

	// who-may-write currentPos / who-may-index pattern
	primDecl := map[*ast.FuncDecl]bool{}
	for fn := range a.prim {
		if fd, _ := p.DeclOf(fn); fd != nil {
			primDecl[fd] = true
		}
	}
	for _, fd := range p.FuncDecls(syn) {
		if primDecl[fd] {
			continue
		}
		fname := core.DeclName(syn, fd)
		ast.Inspect(fd.Body, func(x ast.Node) bool {
			switch y := x.(type) {
			case *ast.AssignStmt:
				for _, l := range y.Lhs {
					if core.FieldOf(syn.TypesInfo, l) == posField {
						// only resets to 0 are allowed outside the primitives
						v, isC := core.ConstInt(syn.TypesInfo, y.Rhs[0])
						c.Check(y.Tok == token.ASSIGN && isC && v == 0, fname+" / write currentPos", y.Pos(), "currentPos may be written outside the position primitives only as a reset to 0")
					}
				}
			case *ast.IncDecStmt:
				if core.FieldOf(syn.TypesInfo, y.X) == posField {
					c.Bad(fname+" / write currentPos", y.Pos(), "currentPos modified outside the position primitives: the bound analysis cannot see this move")
				}
			}
			return true
		})
	}

	// moves: transitive closure of "may change the position"
	moving := map[string]bool{"moveRightGetChar": true, "moveRight": true, "moveLeft": true, "textto": true}
	for fn, n := range a.prim {
		if moving[n] {
			a.moves[fn] = true
		}
	}
	for _, fn := range order {
		ast.Inspect(a.funcs[fn].Body, func(x ast.Node) bool {
			if as, ok := x.(*ast.AssignStmt); ok {
				for _, l := range as.Lhs {
					if core.FieldOf(syn.TypesInfo, l) == posField {
						a.moves[fn] = true
					}
				}
			}
			return true
		})
	}
	for changed := true; changed; {
		changed = false
		for _, fn := range order {
			if a.moves[fn] {
				continue
			}
			for cal := range calls[fn] {
				if a.moves[cal] {
					a.moves[fn] = true
					changed = true
				}
			}
		}
	}
	// infer entry requirements
	for round := 0; round < 6; round++ {
		changed := false
		for _, fn := range order {
			best := -1
			for l := 0; l <= 3; l++ {
				if a.analyze(a.funcs[fn], core.FuncName(fn), l, false) == 0 {
					best = l
					break
				}
			}
			if best < 0 {
				best = 0
			}
			if a.need[fn] != best {
				a.need[fn] = best
				changed = true
			}
		}
		if !changed {
			break
		}
	}
	// exported entry points and functions reachable with no caller-side guarantee must need 0:
	// a function whose need is > 0 is only safe if every call site provides it, which the
	// final pass checks at each parser-method call site.  Non-method callers (none today)
	// would be invisible, so require that needy functions are unexported methods of parser.
	for _, fn := range order {
		if a.need[fn] > 0 {
			sig := fn.Type().(*types.Signature)
			c.Check(sig.Recv() != nil && !fn.Exported(), core.FuncName(fn)+" / entry requirement is internal", fn.Pos(), "needs charsRight() >= %d at entry; demanded at each of its call sites", a.need[fn])
			c.Note("inferred entry requirement: %s needs charsRight() >= %d", core.FuncName(fn), a.need[fn])
		}
	}
	a.reqs, a.manual = nil, nil
	for _, fn := range order {
		c.Visit(core.FuncName(fn))
		a.analyze(a.funcs[fn], core.FuncName(fn), a.need[fn], true)
	}
	// obligations, keyed by function + construct + ordinal (by source order)
	emit := func(list []guardReq, each func(key string, r guardReq)) {
		sort.SliceStable(list, func(i, j int) bool { return list[i].pos < list[j].pos })
		seenPos := map[token.Pos]bool{}
		ord := map[string]int{}
		for _, r := range list {
			if seenPos[r.pos] {
				continue
			}
			seenPos[r.pos] = true
			base := r.fn + " / " + r.what
			ord[base]++
			each(fmt.Sprintf("%s #%d", base, ord[base]), r)
		}
	}
	// a site may be visited in several blocks (never: each node is in one block), but dedupe by pos keeping the worst
	worst := map[token.Pos]guardReq{}
	for _, r := range a.reqs {
		if w, ok := worst[r.pos]; !ok || (w.ok && !r.ok) {
			worst[r.pos] = r
		}
	}
	var reqs []guardReq
	for _, r := range worst {
		reqs = append(reqs, r)
	}
	emit(reqs, func(key string, r guardReq) {
		c.Check(r.ok, key, r.pos, "%s needs charsRight() >= %d; proven lower bound on this path set: %d", r.what, r.need, r.have)
	})
	usedExc := map[int]bool{}
	emit(a.manual, func(key string, r guardReq) {
		for i, ex := range guardExceptions {
			if ex.fn == r.fn && ex.what == r.what {
				usedExc[i] = true
				c.OK(key+" (argued)", r.pos, "outside the abstract domain; frozen exception: %s", ex.reason)
				return
			}
		}
		c.Bad(key+" (unclassified)", r.pos, "pattern access %s is outside the abstract domain and not in the argued exception table", r.what)
	})
	for i, ex := range guardExceptions {
		if !usedExc[i] {
			c.Note("exception table entry no longer matches any site: %s %s", ex.fn, ex.what)
		}
	}

	// _category[ch] sites: guarded by ch <= K with K < len(_category)
	checkCategoryIndex(c)
}

func checkPrimitives(c *core.Ctx, a *guardAnalyzer, patField, posField *types.Var) {
	p := c.P
	syn := p.Pkg("syntax")
	info := syn.TypesInfo
	// each primitive: (reads pattern at index?) (writes currentPos how?)
	for fn, name := range a.prim {
		fd, _ := p.DeclOf(fn)
		if fd == nil {
			c.Anchor("body of syntax.parser." + name)
			continue
		}
		idx, wr := 0, 0
		ast.Inspect(fd.Body, func(x ast.Node) bool {
			switch y := x.(type) {
			case *ast.IndexExpr:
				if core.FieldOf(info, y.X) == patField {
					idx++
				}
			case *ast.SliceExpr:
				if core.FieldOf(info, y.X) == patField {
					idx += 10
				}
			case *ast.AssignStmt:
				for _, l := range y.Lhs {
					if core.FieldOf(info, l) == posField {
						wr++
					}
				}
			case *ast.IncDecStmt:
				if core.FieldOf(info, y.X) == posField {
					wr++
				}
			}
			return true
		})
		wantIdx := map[string]int{"rightChar": 1, "moveRightGetChar": 1, "charAt": 1}[name]
		wantWr := map[string]int{"moveRightGetChar": 1, "moveRight": 1, "moveLeft": 1, "textto": 1}[name]
		c.Check(idx == wantIdx && wr == wantWr, "syntax.(*parser)."+name+" / primitive contract", fd.Pos(), "primitive indexes pattern %d time(s) (modelled %d) and writes currentPos %d time(s) (modelled %d)", idx, wantIdx, wr, wantWr)
	}
}

func checkCategoryIndex(c *core.Ctx) {
	p := c.P
	syn := p.Pkg("syntax")
	info := syn.TypesInfo
	cat, _ := c.P.LookupObj("syntax", "_category").(*types.Var)
	if cat == nil {
		c.Anchor("syntax._category")
		return
	}
	var catLen int64 = -1
	switch t := cat.Type().Underlying().(type) {
	case *types.Array:
		catLen = t.Len()
	case *types.Slice:
		// length from the composite literal
		for _, f := range syn.Syntax {
			ast.Inspect(f, func(x ast.Node) bool {
				if vs, ok := x.(*ast.ValueSpec); ok {
					for i, id := range vs.Names {
						if info.Defs[id] == cat && i < len(vs.Values) {
							if cl, ok := vs.Values[i].(*ast.CompositeLit); ok {
								catLen = int64(len(cl.Elts))
							}
						}
					}
				}
				return true
			})
		}
	}
	n := 0
	for _, fd := range p.FuncDecls(syn) {
		fname := core.DeclName(syn, fd)
		ast.Inspect(fd.Body, func(x ast.Node) bool {
			be, ok := x.(*ast.BinaryExpr)
			if !ok || be.Op != token.LAND {
				return true
			}
			// pattern: ch <= K && _category[ch] ...
			var idxs []*ast.IndexExpr
			ast.Inspect(be.Y, func(y ast.Node) bool {
				if ie, ok := y.(*ast.IndexExpr); ok {
					if id, ok := ast.Unparen(ie.X).(*ast.Ident); ok && info.ObjectOf(id) == cat {
						idxs = append(idxs, ie)
					}
				}
				return true
			})
			for _, ie := range idxs {
				n++
				okGuard := false
				for _, cj := range conjuncts(be.X) {
					if g, ok := cj.(*ast.BinaryExpr); ok && (g.Op == token.LEQ || g.Op == token.LSS) {
						if types.ExprString(g.X) == types.ExprString(ie.Index) {
							if k, ok := core.ConstInt(info, g.Y); ok {
								if g.Op == token.LSS {
									k--
								}
								if k < catLen {
									okGuard = true
								}
							}
						}
					}
				}
				c.Check(okGuard, fmt.Sprintf("%s / _category[%s] bound", fname, types.ExprString(ie.Index)), ie.Pos(), "index guarded by an upper bound below len(_category)=%d", catLen)
			}
			return true
		})
	}
	// any _category index not inside such a conjunction is unclassified
	total := 0
	for _, fd := range p.FuncDecls(syn) {
		ast.Inspect(fd.Body, func(x ast.Node) bool {
			if ie, ok := x.(*ast.IndexExpr); ok {
				if id, ok := ast.Unparen(ie.X).(*ast.Ident); ok && info.ObjectOf(id) == cat {
					total++
				}
			}
			return true
		})
	}
	c.Check(total == n, "syntax / every _category index is guarded", token.NoPos, "%d index sites, %d inside a `ch <= K && …` guard", total, n)
}
