package rules

import (
	"fmt"
	"go/ast"
	"go/token"
	"go/types"
	"sort"
	"strings"

	"golang.org/x/tools/go/ssa"

	"regexlint/internal/core"
)

// ---------------------------------------------------------------------------
// C13: the backtracking stack limit
// ---------------------------------------------------------------------------

type limCtx struct {
	c          *core.Ctx
	runtrack   *types.Var
	trackpos   *types.Var
	limitField *types.Var
	codepos    *types.Var
	funcs      []*ssa.Function
}

func newLimCtx(c *core.Ctx) *limCtx {
	p := c.P
	l := &limCtx{c: c}
	l.runtrack = p.LookupField("", "Runner", "runtrack")
	l.trackpos = p.LookupField("", "Runner", "Runtrackpos")
	l.codepos = p.LookupField("", "Runner", "codepos")
	l.limitField = p.LookupField("", "OptimizationOptions", "MaxBacktrackingStackSize")
	if l.runtrack == nil || l.trackpos == nil || l.limitField == nil || l.codepos == nil {
		c.Anchor("Runner.runtrack / Runner.Runtrackpos / Runner.codepos / OptimizationOptions.MaxBacktrackingStackSize")
		return nil
	}
	l.funcs = p.ModuleFuncs()
	return l
}

// boundedBy reports whether length value L is, on every path, either the limit
// value itself or arrives over an edge on which `limit < 0` or `L' <= limit`
// is known (L' being the incoming value).
func boundedBy(L ssa.Value, limit ssa.Value, depth int) (bool, string) {
	if L == limit {
		return true, ""
	}
	if depth > 4 {
		return false, "too deep"
	}
	// n = min(n, limit): at most the limit
	if call, ok := L.(*ssa.Call); ok {
		if bi, ok := call.Call.Value.(*ssa.Builtin); ok && bi.Name() == "min" {
			for _, a := range call.Call.Args {
				if a == limit {
					return true, ""
				}
			}
		}
	}
	phi, ok := L.(*ssa.Phi)
	if !ok {
		return false, fmt.Sprintf("length %s is not clamped (not a merge of clamped values)", L.Name())
	}
	for i, e := range phi.Edges {
		if e == limit {
			continue
		}
		pred := phi.Block().Preds[i]
		okEdge := false
		for _, f := range core.FactsOnEdge(pred, phi.Block()) {
			x, y, op, ok := core.CmpNorm(f)
			if !ok {
				continue
			}
			// limit < 0
			if x == limit && op == token.LSS {
				if k, isC := core.IntConst(y); isC && k <= 0 {
					okEdge = true
				}
			}
			// e <= limit  or e < limit
			if x == e && y == limit && (op == token.LEQ || op == token.LSS) {
				okEdge = true
			}
		}
		if !okEdge {
			if ok2, _ := boundedBy(e, limit, depth+1); ok2 {
				continue
			}
			return false, fmt.Sprintf("value %s reaches the allocation over an edge where neither limit<0 nor %s<=limit is known", e.Name(), e.Name())
		}
	}
	return true, ""
}

func (l *limCtx) limitLoads(fn *ssa.Function) []ssa.Value {
	var out []ssa.Value
	for _, b := range fn.Blocks {
		for _, ins := range b.Instrs {
			if u, ok := ins.(*ssa.UnOp); ok && u.Op == token.MUL {
				if core.FieldVarOfAddr(u.X) == l.limitField {
					out = append(out, u)
				}
			}
			if f, ok := ins.(*ssa.Field); ok && core.FieldVarOfAddr(f) == l.limitField {
				out = append(out, f)
			}
		}
	}
	return out
}

func RLim(c *core.Ctx) {
	l := newLimCtx(c)
	if l == nil {
		return
	}
	rLim1(l)
	rLim2(l)
	rLim3(l)
	rLim4(l)
}

func rLim1(l *limCtx) {
	c := l.c
	c.Rule("R-LIM1", "Runner.runtrack is assigned only in initMatch and growTrack, and every slice stored there is made with a length that on every path is clamped by `limit >= 0 && n > limit -> n = limit`", 2)
	allowed := map[string]bool{"regexp2.(*Runner).initMatch": true, "regexp2.(*Runner).growTrack": true}
	n := 0
	for _, fn := range l.funcs {
		name := core.SSAName(fn)
		for _, b := range fn.Blocks {
			for _, ins := range b.Instrs {
				st, ok := ins.(*ssa.Store)
				if !ok || core.FieldVarOfAddr(st.Addr) != l.runtrack {
					continue
				}
				n++
				key := fmt.Sprintf("%s / store to Runner.runtrack", name)
				if !allowed[name] {
					c.Bad(key, st.Pos(), "the backtracking stack is (re)allocated outside initMatch/growTrack, where the limit is not applied")
					continue
				}
				c.Visit(name)
				mk, ok := st.Val.(*ssa.MakeSlice)
				if !ok {
					c.Bad(key, st.Pos(), "stored value is not a fresh make([]int, n)")
					continue
				}
				lims := l.limitLoads(fn)
				if len(lims) != 1 {
					c.Bad(key, st.Pos(), "expected exactly one read of MaxBacktrackingStackSize in %s, found %d", name, len(lims))
					continue
				}
				ok1, why1 := boundedBy(mk.Len, lims[0], 0)
				ok2, why2 := boundedBy(mk.Cap, lims[0], 0)
				c.Check(ok1 && ok2, key, st.Pos(), "make length %s clamp: %s %s", mk.Len.Name(), why1, why2)
			}
		}
	}
	if n == 0 {
		c.Anchor("stores to Runner.runtrack")
	}
}

func rLim2(l *limCtx) {
	c := l.c
	c.Rule("R-LIM2", "MaxBacktrackingStackSize is read only in initMatch, growTrack, the option setter, the engine cache key and the defaults; inside initMatch/growTrack its value influences only branch conditions, slice lengths/bounds, the stack-pointer shift and growTrack's boolean result; growTrack and doubleIntSlice copy to the high end and shift the position by the same amount (positions are relative to the end)", 6)
	allowedReaders := map[string]string{
		"regexp2.(*Runner).initMatch":              "clamp",
		"regexp2.(*Runner).growTrack":              "clamp",
		"regexp2.cacheKeyFromConfig":               "engine cache key",
		"regexp2.OptionMaxBacktrackingStackSize$1": "option setter (write)",
		"regexp2.init":                             "DefaultOptimizationOptions literal",
	}
	for _, fn := range l.funcs {
		name := core.SSAName(fn)
		touches := false
		for _, b := range fn.Blocks {
			for _, ins := range b.Instrs {
				if v, ok := ins.(ssa.Value); ok {
					if _, isFA := v.(*ssa.FieldAddr); isFA && core.FieldVarOfAddr(v) == l.limitField {
						touches = true
					}
					if _, isF := v.(*ssa.Field); isF && core.FieldVarOfAddr(v) == l.limitField {
						touches = true
					}
				}
			}
		}
		if !touches {
			continue
		}
		role, ok := allowedReaders[name]
		c.Check(ok, name+" / touches MaxBacktrackingStackSize", fn.Pos(), "role: %s; the limit may be consulted only where the stack is allocated or grown", role)
		if role != "clamp" {
			continue
		}
		// forward slice of the loaded value
		for _, lv := range l.limitLoads(fn) {
			slice := core.ForwardSlice(lv)
			var bad []string
			for ins := range slice {
				switch x := ins.(type) {
				case *ssa.BinOp, *ssa.Phi, *ssa.If, *ssa.MakeSlice, *ssa.Slice, *ssa.DebugRef:
				case *ssa.Return:
					// only a bool may be returned
					for _, r := range x.Results {
						if _, inSlice := sliceHasValue(slice, r); inSlice {
							if bt, ok := r.Type().Underlying().(*types.Basic); !ok || bt.Kind() != types.Bool {
								bad = append(bad, "returned as non-bool")
							}
						}
					}
				case *ssa.Store:
					f := core.FieldVarOfAddr(x.Addr)
					if f != l.trackpos && f != l.runtrack && f != c.P.LookupField("", "Runner", "Runstackpos") && f != c.P.LookupField("", "Runner", "runstack") {
						bad = append(bad, "stored to "+x.Addr.String())
					}
				case *ssa.Call:
					if b, ok := x.Call.Value.(*ssa.Builtin); ok && (b.Name() == "copy" || b.Name() == "len" || b.Name() == "cap" || b.Name() == "min" || b.Name() == "max") {
						continue // min / max of sizes are sizes
					}
					bad = append(bad, "passed to "+x.Call.Value.String())
				case *ssa.UnOp:
				default:
					bad = append(bad, fmt.Sprintf("reaches %T", ins))
				}
			}
			sort.Strings(bad)
			c.Check(len(bad) == 0, name+" / limit value flows only into sizes, bounds, branch conditions and the bool result", lv.Pos(), "%d dependent instructions; %s", len(slice), strings.Join(bad, "; "))
		}
	}
	// relative-shift shape: in every function that stores a fresh slice to
	// Runner.runtrack after copying the old one, or does so through pointers
	// (doubleIntSlice), copy destination low bound == amount added to the position.
	for _, name := range []string{"Runner.growTrack", "doubleIntSlice"} {
		fn := c.P.SSAFunc(c.P.LookupFunc("", name))
		if fn == nil {
			c.Anchor("regexp2." + name)
			continue
		}
		c.Visit(core.SSAName(fn))
		var low ssa.Value
		var delta ssa.Value
		var pos token.Pos
		for _, b := range fn.Blocks {
			for _, ins := range b.Instrs {
				if call, ok := ins.(*ssa.Call); ok {
					if bi, ok := call.Call.Value.(*ssa.Builtin); ok && bi.Name() == "copy" {
						if sl, ok := call.Call.Args[0].(*ssa.Slice); ok {
							low = sl.Low
							pos = call.Pos()
						}
					}
				}
				if st, ok := ins.(*ssa.Store); ok {
					// *pos = *pos + D   or   r.Runtrackpos = r.Runtrackpos + D
					if bin, ok := st.Val.(*ssa.BinOp); ok && bin.Op == token.ADD {
						if ld, ok := bin.X.(*ssa.UnOp); ok && ld.Op == token.MUL && sameAddr(ld.X, st.Addr) {
							if isIntType(bin.Type()) {
								delta = bin.Y
							}
						}
					}
				}
			}
		}
		c.Check(low != nil && delta != nil && core.SameValue(low, delta), "regexp2."+name+" / copy to the high end, shift by the same amount", pos,
			"copy(new[D:], old) with D structurally equal to the amount added to the stack position (found low=%v delta=%v)", valStr(low), valStr(delta))
	}
}

func valStr(v ssa.Value) string {
	if v == nil {
		return "<none>"
	}
	return v.String()
}

func isIntType(t types.Type) bool {
	b, ok := t.Underlying().(*types.Basic)
	return ok && b.Info()&types.IsInteger != 0
}

func sameAddr(a, b ssa.Value) bool {
	if a == b {
		return true
	}
	fa, ok1 := a.(*ssa.FieldAddr)
	fb, ok2 := b.(*ssa.FieldAddr)
	return ok1 && ok2 && fa.Field == fb.Field && fa.X == fb.X
}

func sliceHasValue(slice map[ssa.Instruction]bool, v ssa.Value) (ssa.Instruction, bool) {
	ins, ok := v.(ssa.Instruction)
	if !ok {
		return nil, false
	}
	return ins, slice[ins]
}

// errorCheckedAndReturned: the error value v is compared with nil and returned
// on the non-nil branch.
func errorCheckedAndReturned(v ssa.Value) (bool, string) {
	refs := core.Referrers(v)
	if len(refs) == 0 {
		return false, "error result is discarded"
	}
	tested := false
	returned := false
	for _, r := range refs {
		switch x := r.(type) {
		case *ssa.BinOp:
			if (x.Op == token.NEQ || x.Op == token.EQL) && (core.IsNilConst(x.X) || core.IsNilConst(x.Y)) {
				for _, rr := range core.Referrers(x) {
					ifi, ok := rr.(*ssa.If)
					if !ok {
						continue
					}
					tested = true
					nz := ifi.Block().Succs[0]
					if x.Op == token.EQL {
						nz = ifi.Block().Succs[1]
					}
					// the non-nil successor must return v
					for _, ins := range nz.Instrs {
						if ret, ok := ins.(*ssa.Return); ok {
							for _, res := range ret.Results {
								if res == v {
									returned = true
								}
							}
						}
					}
				}
			}
		case *ssa.Return:
			// `return r.goTo(x)` style: returned directly
			for _, res := range x.Results {
				if res == v {
					tested, returned = true, true
				}
			}
		case *ssa.DebugRef:
		}
	}
	if !tested {
		return false, "error result is never compared with nil"
	}
	if !returned {
		return false, "the non-nil branch does not return the error unchanged"
	}
	return true, ""
}

func rLim3(l *limCtx) {
	c := l.c
	c.Rule("R-LIM3", "every call of ensureStorage, goTo, backtrack and of the execute function value has its error result tested and returned unchanged; ErrBacktrackingStackLimit is produced only by ensureStorage", 12)
	p := c.P
	targets := map[*ssa.Function]string{}
	for _, n := range []string{"Runner.ensureStorage", "Runner.goTo", "Runner.backtrack", "executeDefault"} {
		f := p.SSAFunc(p.LookupFunc("", n))
		if f == nil {
			c.Anchor("regexp2." + n)
			return
		}
		targets[f] = n
	}
	runnerT := p.LookupObj("", "Runner")
	ord := map[string]int{}
	for _, fn := range l.funcs {
		if core.FnPkgPath(fn) != core.PkgRoot {
			continue
		}
		name := core.SSAName(fn)
		for _, b := range fn.Blocks {
			for _, ins := range b.Instrs {
				call, ok := ins.(*ssa.Call)
				if !ok {
					continue
				}
				what := ""
				if cal := call.Call.StaticCallee(); cal != nil {
					what = targets[cal]
				} else if !call.Call.IsInvoke() {
					// dynamic call of a func(*Runner) error value
					if sig, ok := call.Call.Value.Type().Underlying().(*types.Signature); ok && sig.Params().Len() == 1 && sig.Results().Len() == 1 {
						if pt, ok := sig.Params().At(0).Type().(*types.Pointer); ok {
							if nt, ok := pt.Elem().(*types.Named); ok && nt.Obj() == runnerT && sig.Results().At(0).Type().String() == "error" {
								what = "execute (func value)"
							}
						}
					}
				}
				if what == "" {
					continue
				}
				c.Visit(name)
				k := name + " / call " + what
				ord[k]++
				ok2, why := errorCheckedAndReturned(call)
				c.Check(ok2, fmt.Sprintf("%s #%d", k, ord[k]), call.Pos(), "error of %s must be tested and returned unchanged: %s", what, why)
			}
		}
	}
	// producer of the sentinel
	sentinel, _ := p.LookupObj("", "ErrBacktrackingStackLimit").(*types.Var)
	if sentinel == nil {
		c.Anchor("regexp2.ErrBacktrackingStackLimit")
		return
	}
	for _, fn := range l.funcs {
		name := core.SSAName(fn)
		for _, b := range fn.Blocks {
			for _, ins := range b.Instrs {
				u, ok := ins.(*ssa.UnOp)
				if !ok || u.Op != token.MUL {
					continue
				}
				g, ok := u.X.(*ssa.Global)
				if !ok || g.Object() != sentinel {
					continue
				}
				c.Check(name == "regexp2.(*Runner).ensureStorage", name+" / produces ErrBacktrackingStackLimit", u.Pos(), "the stack-limit sentinel may be produced only where growth was refused")
			}
		}
	}
}

func rLim4(l *limCtx) {
	c := l.c
	c.Rule("R-LIM4", "push budget: no interpreter clause pushes more than K backtracking slots per execution, and along every emitFragment path Σ K·[opcodeBacktracks(op)] >= Σ peak-footprint(op) (K = the multiplier in ensureStorage, read from the source); goTo checks capacity when newpos <= codepos, backtrack when newpos < codepos; runtrack[...] is written only by the push helpers and executeDefault", 60)
	p := c.P
	m := buildOpModel(c)
	if !m.ok {
		c.Anchor("bytecode model")
		return
	}
	// K from ensureStorage: r.Runtrackpos < r.runtrackcount*K
	es := p.SSAFunc(p.LookupFunc("", "Runner.ensureStorage"))
	trackcount := p.LookupField("", "Runner", "runtrackcount")
	if es == nil || trackcount == nil {
		c.Anchor("Runner.ensureStorage / runtrackcount")
		return
	}
	K := int64(-1)
	for _, b := range es.Blocks {
		for _, ins := range b.Instrs {
			cmp, ok := ins.(*ssa.BinOp)
			if !ok || cmp.Op != token.LSS {
				continue
			}
			if _, ok := core.LoadOfField(cmp.X, l.trackpos); !ok {
				continue
			}
			// runtrackcount*K — written in place, kept in a local, or computed by a one-line helper
			var mulOf func(v ssa.Value, depth int) (int64, bool)
			mulOf = func(v ssa.Value, depth int) (int64, bool) {
				if depth > 3 {
					return 0, false
				}
				switch x := v.(type) {
				case *ssa.BinOp:
					if x.Op == token.MUL {
						for _, pr := range [][2]ssa.Value{{x.X, x.Y}, {x.Y, x.X}} {
							if _, ok := core.LoadOfField(pr[0], trackcount); ok {
								if k, ok := core.IntConst(pr[1]); ok {
									return k, true
								}
							}
						}
					}
				case *ssa.Call:
					if cal := x.Call.StaticCallee(); cal != nil && core.InModule(cal) {
						var got int64
						n := 0
						for _, cb := range cal.Blocks {
							if r, ok := cb.Instrs[len(cb.Instrs)-1].(*ssa.Return); ok && len(r.Results) == 1 {
								k, ok := mulOf(r.Results[0], depth+1)
								if !ok {
									return 0, false
								}
								got = k
								n++
							}
						}
						if n == 1 {
							return got, true
						}
					}
				}
				return 0, false
			}
			if k, ok := mulOf(cmp.Y, 0); ok {
				K = k
			}
		}
	}
	if K < 0 {
		c.Anchor("`Runtrackpos < runtrackcount*K` in ensureStorage")
		return
	}
	c.Note("R-LIM4: K=%d read from ensureStorage", K)
	// ensureStorage must refuse (return the sentinel) when growTrack fails, and the
	// comparison guards the growTrack call
	info := p.Pkg("").TypesInfo
	t := lookupTrackFns(c)
	opField := p.LookupField("", "Runner", "operator")
	// per clause: max pushed slots per path (forward) / net (back)
	maxpush := map[int64]int64{}
	for _, cl := range m.clauses {
		pe := &pathEnum{info: info, opField: opField, mask: m.mask, limit: 4000, ok: true}
		sps := pe.paths(cl.cc.Body, -1)
		if !pe.ok {
			c.Unknown("executeDefault / clause "+m.opLabel(cl.labels[0])+" path enumeration", cl.cc.Pos(), "%s", pe.why)
			continue
		}
		for _, lab := range cl.labels {
			worst := int64(0)
			for _, sp := range sps {
				pushed, popped := int64(0), int64(0)
				for _, e := range sp.events {
					if e.only >= 0 && e.only != lab.op {
						continue
					}
					if a, ok := t.pushPos[e.fn]; ok {
						pushed += a + 1
					} else if a, ok := t.pushNeg[e.fn]; ok {
						pushed += a + 1
					} else if e.fn == t.pop {
						popped++
					} else if e.fn == t.popN {
						if k, ok := core.ConstInt(info, e.call.Args[0]); ok {
							popped += k
						}
					}
				}
				_ = popped
				worst = max(worst, pushed)
			}
			// a Back/Back2 clause first pops exactly its own frame (R-OP3), so what it
			// pushes afterwards is the instruction's new footprint: the peak footprint of
			// an instruction is the largest number of slots any of its clauses pushes.
			maxpush[lab.op] = max(maxpush[lab.op], worst)
			c.Check(worst <= K, "executeDefault / "+m.opLabel(lab)+" pushes <= K", cl.cc.Pos(), "clause pushes at most %d slots per execution; ensureStorage reserves %d per counted instruction", worst, K)
		}
	}
	// per emitFragment arm path: Σ K·bt(op) − maxpush(op) >= 0
	syn := p.Pkg("syntax")
	emitAt := map[token.Pos]emitSite{}
	for _, s := range m.emits {
		emitAt[s.call.Pos()] = s
	}
	for _, st := range m.emitSw.Body.List {
		cc := st.(*ast.CaseClause)
		if cc.List == nil {
			continue
		}
		label := ""
		for i, e := range cc.List {
			if i > 0 {
				label += ","
			}
			label += types.ExprString(e)
		}
		pe := &pathEnum{info: syn.TypesInfo, limit: 4000, ok: true}
		sps := pe.paths(cc.Body, -1)
		if !pe.ok {
			c.Unknown("emitFragment / arm "+label+" path enumeration", cc.Pos(), "%s", pe.why)
			continue
		}
		worst := int64(1 << 30)
		detail := ""
		for _, sp := range sps {
			budget := int64(0)
			var ops []string
			for _, e := range sp.events {
				s, ok := emitAt[e.call.Pos()]
				if !ok {
					continue
				}
				// worst alternative among the opcodes this site can emit
				w := int64(1 << 30)
				for _, op := range s.ops {
					v := -maxpush[op]
					if m.backtracks[op] {
						v += K
					}
					w = min(w, v)
				}
				budget += w
				ops = append(ops, m.opsString(s.ops))
			}
			if budget < worst {
				worst = budget
				detail = strings.Join(ops, " ")
			}
		}
		if worst == 1<<30 {
			worst = 0
		}
		c.Check(worst >= 0, "emitFragment / arm "+label+" push budget", cc.Pos(), "worst path budget Σ(K·counted − maxpush) = %+d over ops [%s]", worst, detail)
	}
	// goTo / backtrack comparisons guarding ensureStorage
	for _, spec := range []struct {
		fn     string
		strict bool
	}{{"Runner.goTo", false}, {"Runner.backtrack", true}} {
		fn := p.SSAFunc(p.LookupFunc("", spec.fn))
		if fn == nil {
			c.Anchor("regexp2." + spec.fn)
			continue
		}
		found, good := false, false
		var pos token.Pos
		for _, b := range fn.Blocks {
			for _, ins := range b.Instrs {
				call, ok := ins.(*ssa.Call)
				if !ok || call.Call.StaticCallee() != es {
					continue
				}
				found = true
				pos = call.Pos()
				for _, f := range core.FactsAtBlock(b) {
					x, y, op, ok := core.CmpNorm(f)
					if !ok {
						continue
					}
					_, yIsCodepos := core.LoadOfField(y, l.codepos)
					if !yIsCodepos {
						continue
					}
					_ = x
					if op == token.LEQ || (spec.strict && op == token.LSS) {
						good = true
					}
				}
			}
		}
		want := "newpos <= codepos"
		if spec.strict {
			want = "newpos < codepos (or <=)"
		}
		c.Check(found && good, "regexp2."+spec.fn+" / capacity check on backward jumps", pos, "ensureStorage must run whenever %s", want)
	}
	// who writes runtrack[...]
	for _, fn := range l.funcs {
		name := core.SSAName(fn)
		for _, b := range fn.Blocks {
			for _, ins := range b.Instrs {
				st, ok := ins.(*ssa.Store)
				if !ok {
					continue
				}
				ia, ok := st.Addr.(*ssa.IndexAddr)
				if !ok {
					continue
				}
				if _, ok := core.LoadOfField(ia.X, l.runtrack); !ok {
					continue
				}
				okWriter := strings.HasPrefix(name, "regexp2.(*Runner).trackPush") || name == "regexp2.executeDefault"
				c.Check(okWriter, name+" / writes runtrack[...]", st.Pos(), "the backtracking stack is written only by the push helpers (bounded by the budget) and the bump-along update in executeDefault")
			}
		}
	}
}

// ---------------------------------------------------------------------------
// R-LIM5: ensureStorage succeeds only with the reserve in place.
// The interpreter pushes up to K*TrackCount slots between two calls of
// ensureStorage without looking at the stack pointer.  growTrack may grow the
// stack by less than it was asked for (the limit clamps the new length, down
// to a single slot), so "growTrack succeeded" does not imply "the reserve is
// there": the condition has to be tested again after the growth, otherwise
// the next pushes run off the front of the slice.
// ---------------------------------------------------------------------------

func RLim5(c *core.Ctx) {
	c.Rule("R-LIM5", "in ensureStorage, after the call of growTrack the free space is compared with the reserve again (a read of Runtrackpos that follows the call feeds a branch) before nil is returned: a growth clamped by the limit may leave less than the reserve", 1)
	p := c.P
	fn := p.SSAFunc(p.LookupFunc("", "Runner.ensureStorage"))
	grow := p.SSAFunc(p.LookupFunc("", "Runner.growTrack"))
	tp := p.LookupField("", "Runner", "Runtrackpos")
	if fn == nil || grow == nil || tp == nil {
		c.Anchor("Runner.ensureStorage / growTrack / Runtrackpos")
		return
	}
	c.Visit(core.SSAName(fn))
	n := 0
	for _, b := range fn.Blocks {
		for i, ins := range b.Instrs {
			call, ok := ins.(*ssa.Call)
			if !ok || call.Call.StaticCallee() != grow {
				continue
			}
			n++
			rechecked := false
			check := func(ins2 ssa.Instruction) {
				ld, ok := ins2.(*ssa.UnOp)
				if !ok || ld.Op != token.MUL || core.FieldVarOfAddr(ld.X) != tp {
					return
				}
				for _, r := range core.Referrers(ld) {
					if bin, ok := r.(*ssa.BinOp); ok {
						switch bin.Op {
						case token.LSS, token.LEQ, token.GTR, token.GEQ:
							for _, r2 := range core.Referrers(bin) {
								if _, ok := r2.(*ssa.If); ok {
									rechecked = true
								}
							}
						}
					}
				}
			}
			for _, later := range b.Instrs[i+1:] {
				check(later)
			}
			for _, b2 := range fn.Blocks {
				if b2 != b && b.Dominates(b2) {
					for _, i2 := range b2.Instrs {
						check(i2)
					}
				}
			}
			c.Check(rechecked, fmt.Sprintf("ensureStorage / the reserve is re-tested after growTrack #%d", n), call.Pos(),
				"growTrack returns true as soon as the stack grew at all; with the limit just above the current size it grows by a few slots only, ensureStorage returns nil, and the interpreter then pushes up to the full reserve: index out of range [-1] in trackPush")
		}
	}
	if n == 0 {
		c.Anchor("the growTrack call in ensureStorage")
	}
}
