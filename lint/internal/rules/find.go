package rules

import (
	"fmt"
	"go/ast"
	"go/token"
	"go/types"
	"sort"
	"strings"

	"golang.org/x/tools/go/ssa"

	"regexlint/internal/core"
)

// ---------------------------------------------------------------------------
// R-MODE: producer / consumer agreement on the find-mode record.
// ---------------------------------------------------------------------------

func RMode(c *core.Ctx) {
	c.Rule("R-MODE", "for every find mode M, the fields of FindOptimizations that a consumer arm `case M` reads (findFirstCharOptimized, shouldUseFindFirstCharOptimized, newStringPrefixFilter) are assigned by the producer on every path before it sets FindMode = M; every mode shouldUseFindFirstCharOptimized accepts has an arm in findFirstCharOptimized", 20)
	p := c.P
	syn := p.Pkg("syntax")
	root := p.Pkg("")
	foT, _ := syn.Types.Scope().Lookup("FindOptimizations").(*types.TypeName)
	modeField := p.LookupField("syntax", "FindOptimizations", "FindMode")
	prodFn := p.LookupFunc("syntax", "newFindOptimizationsForNode")
	prod, _ := p.DeclOf(prodFn)
	if foT == nil || modeField == nil || prod == nil {
		c.Anchor("syntax.FindOptimizations / FindMode / newFindOptimizationsForNode")
		return
	}
	c.Visit(core.FuncName(prodFn))
	sinfo := syn.TypesInfo
	modeName := map[int64]string{}
	modeT := modeField.Type()
	for _, n := range syn.Types.Scope().Names() {
		if k, ok := syn.Types.Scope().Lookup(n).(*types.Const); ok && types.Identical(k.Type(), modeT) {
			if v, ok := constInScope(syn.Types, n); ok {
				modeName[v] = n
			}
		}
	}
	// --- producer: fields assigned before each `f.FindMode = M`
	isFO := func(e ast.Expr) bool { return core.IsNamed(sinfo.TypeOf(e), core.PkgSyntax, "FindOptimizations") }
	fieldOfAssign := func(lhs ast.Expr) string {
		// f.X = …, f.X.Y = … -> "X"
		for {
			sel, ok := ast.Unparen(lhs).(*ast.SelectorExpr)
			if !ok {
				return ""
			}
			if isFO(sel.X) {
				return sel.Sel.Name
			}
			lhs = sel.X
		}
	}
	always := map[string]bool{}
	writes := map[int64]map[string]bool{} // mode -> intersection of assigned fields
	var walk func(stmts []ast.Stmt, assigned map[string]bool)
	record := func(mode int64, assigned map[string]bool) {
		cp := map[string]bool{}
		for k := range assigned {
			cp[k] = true
		}
		if prev, ok := writes[mode]; ok {
			for k := range prev {
				if !cp[k] {
					delete(prev, k)
				}
			}
		} else {
			writes[mode] = cp
		}
	}
	// modes returned by helper functions used as `f.FindMode = helper(...)`
	helperModes := func(call *ast.CallExpr) []int64 {
		fn := core.Callee(sinfo, call)
		fd, _ := p.DeclOf(fn)
		var out []int64
		if fd == nil {
			return nil
		}
		ast.Inspect(fd.Body, func(n ast.Node) bool {
			if r, ok := n.(*ast.ReturnStmt); ok && len(r.Results) == 1 {
				if v, ok := core.ConstInt(sinfo, r.Results[0]); ok {
					out = append(out, v)
				}
			}
			return true
		})
		return out
	}
	walk = func(stmts []ast.Stmt, assigned map[string]bool) {
		cur := map[string]bool{}
		for k := range assigned {
			cur[k] = true
		}
		// the producer's idiom is "set the mode, fill the fields, return": what counts is what
		// has been assigned when the block that set the mode ends (or returns).
		var pending []int64
		flush := func() {
			for _, m := range pending {
				record(m, cur)
			}
			pending = nil
		}
		defer flush()
		for _, st := range stmts {
			switch s := st.(type) {
			case *ast.ReturnStmt:
				flush()
			case *ast.AssignStmt:
				for i, lhs := range s.Lhs {
					// f := &FindOptimizations{K: v, ...}
					if i < len(s.Rhs) {
						if u, ok := ast.Unparen(s.Rhs[i]).(*ast.UnaryExpr); ok && u.Op == token.AND {
							if cl, ok := u.X.(*ast.CompositeLit); ok && isFO(cl) {
								for _, el := range cl.Elts {
									if kv, ok := el.(*ast.KeyValueExpr); ok {
										if id, ok := kv.Key.(*ast.Ident); ok {
											cur[id.Name] = true
											always[id.Name] = true
										}
									}
								}
							}
						}
					}
					f := fieldOfAssign(lhs)
					if f == "" {
						continue
					}
					if f == modeField.Name() && i < len(s.Rhs) {
						if v, ok := core.ConstInt(sinfo, s.Rhs[i]); ok {
							pending = append(pending, v)
						} else if call, ok := ast.Unparen(s.Rhs[i]).(*ast.CallExpr); ok {
							pending = append(pending, helperModes(call)...)
						}
						continue
					}
					cur[f] = true
				}
			case *ast.IfStmt:
				walk(s.Body.List, cur)
				if s.Else != nil {
					if eb, ok := s.Else.(*ast.BlockStmt); ok {
						walk(eb.List, cur)
					} else {
						walk([]ast.Stmt{s.Else}, cur)
					}
				}
			case *ast.BlockStmt:
				walk(s.List, cur)
			case *ast.ForStmt:
				walk(s.Body.List, cur)
			case *ast.RangeStmt:
				walk(s.Body.List, cur)
			case *ast.SwitchStmt:
				for _, cc := range s.Body.List {
					walk(cc.(*ast.CaseClause).Body, cur)
				}
			}
		}
	}
	walk(prod.Body.List, map[string]bool{})
	if len(writes) == 0 {
		c.Anchor("assignments f.FindMode = <const> in newFindOptimizationsForNode")
		return
	}
	// --- consumers
	type arm struct {
		fn     string
		modes  []int64
		reads  map[string]token.Pos
		isDflt bool
	}
	var arms []arm
	armsOf := func(short, fname string) (map[int64]bool, bool) {
		pk := p.Pkg(short)
		fn := p.LookupFunc(short, fname)
		fd, _ := p.DeclOf(fn)
		if fd == nil {
			c.Anchor(short + "." + fname)
			return nil, false
		}
		c.Visit(core.FuncName(fn))
		info := pk.TypesInfo
		listed := map[int64]bool{}
		found := false
		ast.Inspect(fd.Body, func(n ast.Node) bool {
			sw, ok := n.(*ast.SwitchStmt)
			if !ok || sw.Tag == nil || core.FieldOf(info, sw.Tag) != modeField {
				return true
			}
			found = true
			for _, st := range sw.Body.List {
				cc := st.(*ast.CaseClause)
				a := arm{fn: core.FuncName(fn), reads: map[string]token.Pos{}, isDflt: cc.List == nil}
				for _, e := range cc.List {
					if v, ok := core.ConstInt(info, e); ok {
						a.modes = append(a.modes, v)
						listed[v] = true
					}
				}
				for _, bs := range cc.Body {
					ast.Inspect(bs, func(x ast.Node) bool {
						if sel, ok := x.(*ast.SelectorExpr); ok {
							if f := core.FieldOf(info, sel); f != nil && core.IsNamed(info.TypeOf(sel.X), core.PkgSyntax, "FindOptimizations") {
								if _, seen := a.reads[f.Name()]; !seen {
									a.reads[f.Name()] = sel.Pos()
								}
							}
						}
						return true
					})
				}
				arms = append(arms, a)
			}
			return false
		})
		if !found {
			c.Anchor("switch opts.FindMode in " + fname)
		}
		return listed, found
	}
	optListed, _ := armsOf("", "findFirstCharOptimized")
	useListed, _ := armsOf("", "shouldUseFindFirstCharOptimized")
	armsOf("", "newStringPrefixFilter")
	_ = root
	for _, a := range arms {
		if a.isDflt {
			continue
		}
		for _, m := range a.modes {
			w, produced := writes[m]
			name := modeName[m]
			if !produced {
				c.Note("mode %s has a consumer arm in %s but is never produced by newFindOptimizationsForNode", name, a.fn)
				continue
			}
			var missing []string
			var pos token.Pos
			for f, ps := range a.reads {
				if f == modeField.Name() || always[f] || w[f] {
					continue
				}
				missing = append(missing, f)
				pos = ps
			}
			sort.Strings(missing)
			if pos == token.NoPos {
				for _, ps := range a.reads {
					pos = ps
				}
			}
			c.Check(len(missing) == 0, fmt.Sprintf("%s / case %s reads only what the producer set", a.fn, name), pos,
				"arm reads %d fields; not assigned by the producer before FindMode = %s: %s", len(a.reads), name, strings.Join(missing, ", "))
		}
	}
	for m := range useListed {
		c.Check(optListed[m], "findFirstCharOptimized / arm for "+modeName[m], token.NoPos, "shouldUseFindFirstCharOptimized accepts %s, so findFirstCharOptimized must handle it (its default arm reports 'not handled' and the mode silently loses its search)", modeName[m])
	}
}

// ---------------------------------------------------------------------------
// R-MINLEN: the minimum match length is used at match time only as a lower
// bound on the remaining length, never as an offset added to a position.
// ---------------------------------------------------------------------------

func RMinLen(c *core.Ctx) {
	c.Rule("R-MINLEN", "every use of FindOptimizations.MinRequiredLength in package regexp2 (through locals, parameters, closure variables and struct fields it is stored in) is a comparison or the subtrahend of `end - min`; it is never added to a position or used as the minuend", 6)
	p := c.P
	minF := p.LookupField("syntax", "FindOptimizations", "MinRequiredLength")
	if minF == nil {
		c.Anchor("syntax.FindOptimizations.MinRequiredLength")
		return
	}
	var funcs []*ssa.Function
	for _, fn := range p.ModuleFuncs() {
		if core.FnPkgPath(fn) == core.PkgRoot {
			funcs = append(funcs, fn)
		}
	}
	src := map[ssa.Value]bool{}
	srcFields := map[*types.Var]bool{minF: true}
	for changed := true; changed; {
		changed = false
		mark := func(v ssa.Value) {
			if v != nil && !src[v] {
				src[v] = true
				changed = true
			}
		}
		for _, fn := range funcs {
			for _, b := range fn.Blocks {
				for _, ins := range b.Instrs {
					switch x := ins.(type) {
					case *ssa.UnOp:
						if x.Op == token.MUL {
							if f := core.FieldVarOfAddr(x.X); f != nil && srcFields[f] {
								mark(x)
							}
							// load of a local cell (Alloc) that received a source value
							if al, ok := x.X.(*ssa.Alloc); ok {
								for _, r := range core.Referrers(al) {
									if st, ok := r.(*ssa.Store); ok && src[st.Val] {
										mark(x)
									}
								}
							}
							if fv, ok := x.X.(*ssa.FreeVar); ok && src[fv] {
								mark(x)
							}
						}
					case *ssa.Phi:
						for _, e := range x.Edges {
							if src[e] {
								mark(x)
							}
						}
					case *ssa.Store:
						if src[x.Val] {
							if f := core.FieldVarOfAddr(x.Addr); f != nil && !srcFields[f] && f.Pkg() == p.Pkg("").Types {
								srcFields[f] = true
								changed = true
							}
						}
					case *ssa.MakeClosure:
						if cl, ok := x.Fn.(*ssa.Function); ok {
							for i, bnd := range x.Bindings {
								if i >= len(cl.FreeVars) {
									continue
								}
								if src[bnd] {
									mark(cl.FreeVars[i])
								}
								// captured by reference: binding is the Alloc cell
								if al, ok := bnd.(*ssa.Alloc); ok {
									for _, r := range core.Referrers(al) {
										if st, ok := r.(*ssa.Store); ok && src[st.Val] {
											mark(cl.FreeVars[i])
										}
									}
								}
							}
						}
					case ssa.CallInstruction:
						cal := x.Common().StaticCallee()
						if cal == nil || !core.InModule(cal) {
							continue
						}
						for i, a := range x.Common().Args {
							if src[a] && i < len(cal.Params) {
								mark(cal.Params[i])
							}
						}
					}
				}
			}
		}
	}
	if len(src) == 0 {
		c.Anchor("loads of MinRequiredLength in package regexp2")
		return
	}
	ord := map[string]int{}
	for _, fn := range funcs {
		name := core.SSAName(fn)
		for _, b := range fn.Blocks {
			for _, ins := range b.Instrs {
				bin, ok := ins.(*ssa.BinOp)
				if !ok || (!src[bin.X] && !src[bin.Y]) {
					continue
				}
				c.Visit(name)
				ord[name]++
				key := fmt.Sprintf("%s / use #%d of the minimum length (%s)", name, ord[name], bin.Op)
				switch bin.Op {
				case token.LSS, token.LEQ, token.GTR, token.GEQ, token.EQL, token.NEQ:
					c.OK(key, bin.Pos(), "comparison")
				case token.SUB:
					c.Check(src[bin.Y] && !src[bin.X], key, bin.Pos(), "the minimum length may only be subtracted from an end position (`end - min`)")
				default:
					c.Bad(key, bin.Pos(), "the minimum length is combined with a position by %s: it is a bound on what remains, not an offset", bin.Op)
				}
			}
		}
	}
}

// R-MINLENZERO: MinRequiredLength is how much text an attempt needs — it counts
// what a leading lookahead needs too — not how long a match is.  `min == 0` /
// `min > 0` therefore says nothing about matches being empty or not; the only
// use of such a test is to skip a length comparison that would be vacuous.
func RMinLenZero(c *core.Ctx) {
	c.Rule("R-MINLENZERO", "a function that compares FindOptimizations.MinRequiredLength with a constant also uses that value against the text (a comparison with a non-constant length, or as the subtrahend of `end - min`): the constant test may only short-cut a vacuous length check. A predicate built from `MinRequiredLength == 0` alone (\"can match empty\") is wrong for (?=a)a* — the lookahead needs a character, the match may be empty", 2)
	p := c.P
	minF := p.LookupField("syntax", "FindOptimizations", "MinRequiredLength")
	if minF == nil {
		c.Anchor("syntax.FindOptimizations.MinRequiredLength")
		return
	}
	n := 0
	for _, fn := range p.ModuleFuncs() {
		// values of the field in this function: loads, and what they flow into through phis / local cells / parameters named for it
		src := map[ssa.Value]bool{}
		for _, prm := range fn.Params {
			if strings.Contains(strings.ToLower(prm.Name()), "minrequired") {
				src[prm] = true
			}
		}
		for changed := true; changed; {
			changed = false
			for _, b := range fn.Blocks {
				for _, ins := range b.Instrs {
					v, isV := ins.(ssa.Value)
					if !isV || src[v] {
						continue
					}
					switch x := ins.(type) {
					case *ssa.UnOp:
						if x.Op == token.MUL {
							if core.FieldVarOfAddr(x.X) == minF {
								src[v], changed = true, true
							}
							if al, ok := x.X.(*ssa.Alloc); ok {
								for _, r := range core.Referrers(al) {
									if st, ok := r.(*ssa.Store); ok && src[st.Val] {
										src[v], changed = true, true
									}
								}
							}
						}
					case *ssa.Phi:
						for _, e := range x.Edges {
							if src[e] {
								src[v], changed = true, true
							}
						}
					case *ssa.Convert:
						if src[x.X] {
							src[v], changed = true, true
						}
					}
				}
			}
		}
		if len(src) == 0 {
			continue
		}
		var constCmp []*ssa.BinOp
		textUse := false
		for _, b := range fn.Blocks {
			for _, ins := range b.Instrs {
				bin, ok := ins.(*ssa.BinOp)
				if !ok || (!src[bin.X] && !src[bin.Y]) {
					continue
				}
				other := bin.Y
				if src[bin.Y] && !src[bin.X] {
					other = bin.X
				}
				_, otherConst := other.(*ssa.Const)
				switch bin.Op {
				case token.LSS, token.LEQ, token.GTR, token.GEQ, token.EQL, token.NEQ:
					if otherConst {
						constCmp = append(constCmp, bin)
					} else if !src[other] {
						textUse = true
					}
				case token.SUB:
					if src[bin.Y] && !src[bin.X] {
						textUse = true
					}
				}
			}
		}
		// handing the value on to a function that uses it against the text counts
		for _, b := range fn.Blocks {
			for _, ins := range b.Instrs {
				if ci, ok := ins.(ssa.CallInstruction); ok {
					for _, a := range ci.Common().Args {
						if src[a] {
							textUse = true
						}
					}
				}
			}
		}
		for i, bin := range constCmp {
			n++
			name := core.SSAName(fn)
			c.Visit(name)
			c.Check(textUse, fmt.Sprintf("%s / constant test #%d on the minimum required length only short-cuts a length check", name, i+1), bin.Pos(),
				"`%s` is the only use of the minimum required length in this function: it is being read as 'the shortest match', but it is the amount of text an attempt needs (lookaheads included)", bin.String())
		}
	}
	if n == 0 {
		c.Anchor("comparisons of MinRequiredLength with a constant")
	}
}

// R-FDSIB: the raw-string fixed-distance filters agree on how they call the
// shared candidate-start helper: the lower bound handed to
// stringFixedDistanceCandidateStart is the filter's own startAt parameter
// (the caller's start offset), never a loop-carried search cursor.
func RFixedDistSib(c *core.Ctx) {
	c.Rule("R-FDSIB", "every raw-string fixed-distance filter passes its own startAt parameter as the lower bound of stringFixedDistanceCandidateStart (sibling agreement between the char, string and set filters): a candidate may start anywhere at or after the caller's start, not only after the last rejected occurrence", 3)
	p := c.P
	helper := p.SSAFunc(p.LookupFunc("", "stringFixedDistanceCandidateStart"))
	if helper == nil {
		c.Anchor("stringFixedDistanceCandidateStart")
		return
	}
	idx := -1
	for i, prm := range helper.Params {
		if prm.Name() == "startAt" {
			idx = i
		}
	}
	if idx < 0 {
		c.Anchor("parameter startAt of stringFixedDistanceCandidateStart")
		return
	}
	for _, fn := range p.ModuleFuncs() {
		n := 0
		for _, b := range fn.Blocks {
			for _, ins := range b.Instrs {
				call, ok := ins.(*ssa.Call)
				if !ok || call.Call.StaticCallee() != helper {
					continue
				}
				n++
				c.Visit(core.SSAName(fn))
				prm, isParam := call.Call.Args[idx].(*ssa.Parameter)
				c.Check(isParam && prm.Name() == "startAt", fmt.Sprintf("%s / lower bound of candidate start #%d is the filter's startAt", core.SSAName(fn), n), call.Pos(),
					"found %s", call.Call.Args[idx].String())
			}
		}
	}
}

// ---------------------------------------------------------------------------
// R-FFFDFILTER: byte-level literal search and U+FFFD.
// Every decoder of the module turns an invalid input byte into U+FFFD, so the
// interpreter lets a literal U+FFFD of the pattern match it.  A filter that
// searches the raw string for the literal's UTF-8 bytes (strings.Index,
// Contains, HasPrefix … on a string needle) finds only the three-byte
// encoding of a real U+FFFD and reports "no match possible" for such inputs.
// A constructor of a raw-string filter that takes a string literal therefore
// has to refuse literals containing utf8.RuneError.  (Searches by rune —
// IndexRune, IndexAny, ContainsRune — do match invalid bytes and need no test.)
// ---------------------------------------------------------------------------

func RFFFDFilter(c *core.Ctx) {
	c.Rule("R-FFFDFILTER", "every function of package regexp2 that returns a StringPrefixFilter and receives the literal to search for as a string, a []string or a *syntax.LiteralAfterLoop (whose String is searched bytewise) mentions utf8.RuneError in a test that leads to `return nil`: a literal containing U+FFFD must be matched against decoded input, where invalid bytes are U+FFFD as well", 3)
	p := c.P
	pk := p.Pkg("")
	info := pk.TypesInfo
	spf, _ := pk.Types.Scope().Lookup("StringPrefixFilter").(*types.TypeName)
	if spf == nil {
		c.Anchor("regexp2.StringPrefixFilter")
		return
	}
	n := 0
	for _, fd := range p.FuncDecls(pk) {
		if fd.Body == nil || fd.Recv != nil || p.IsTestFile(fd.Pos()) || fd.Type.Results == nil || len(fd.Type.Results.List) != 1 {
			continue
		}
		if info.TypeOf(fd.Type.Results.List[0].Type) != spf.Type() {
			continue
		}
		literalParam := ""
		for _, f := range fd.Type.Params.List {
			t := info.TypeOf(f.Type)
			isLit := false
			switch u := t.Underlying().(type) {
			case *types.Basic:
				isLit = u.Info()&types.IsString != 0
			case *types.Slice:
				if b, ok := u.Elem().Underlying().(*types.Basic); ok && b.Info()&types.IsString != 0 {
					isLit = true
				}
			case *types.Pointer:
				if _, nm := core.NamedOf(t); nm == "LiteralAfterLoop" {
					isLit = true
				}
			}
			if isLit && len(f.Names) > 0 {
				literalParam = f.Names[0].Name
			}
		}
		if literalParam == "" {
			continue
		}
		name := core.DeclName(pk, fd)
		n++
		c.Visit(name)
		// a top-level `if … utf8.RuneError … { return nil }` (possibly inside a range over the literals), before the closure is built
		found := false
		var scan func(list []ast.Stmt)
		scan = func(list []ast.Stmt) {
			for _, st := range list {
				switch x := st.(type) {
				case *ast.IfStmt:
					mentions := false
					ast.Inspect(x.Cond, func(y ast.Node) bool {
						if se, ok := y.(*ast.SelectorExpr); ok && se.Sel.Name == "RuneError" {
							if obj := info.ObjectOf(se.Sel); obj != nil && obj.Pkg() != nil && obj.Pkg().Path() == "unicode/utf8" {
								mentions = true
							}
						}
						if call, ok := y.(*ast.CallExpr); ok {
							if cal := core.Callee(info, call); cal != nil && cal.Pkg() == pk.Types {
								// a helper of this package that itself tests for RuneError
								if d, _ := p.DeclOf(cal); d != nil && d.Body != nil {
									ast.Inspect(d.Body, func(z ast.Node) bool {
										if se, ok := z.(*ast.SelectorExpr); ok && se.Sel.Name == "RuneError" {
											mentions = true
										}
										return true
									})
								}
							}
						}
						return true
					})
					if mentions && len(x.Body.List) > 0 && core.IsReturn(x.Body.List[len(x.Body.List)-1]) {
						found = true
					}
				case *ast.RangeStmt:
					scan(x.Body.List)
				case *ast.ForStmt:
					scan(x.Body.List)
				}
			}
		}
		scan(fd.Body.List)
		c.Check(found, name+" / refuses literals containing U+FFFD", fd.Pos(),
			"the filter built from %s searches the raw bytes of the input for the literal's UTF-8 encoding; an invalid byte of the input decodes to U+FFFD and matches a literal U+FFFD in the interpreter, but is not found by the byte search, so the string entry points answer 'no match' where the rune entry points match", literalParam)
	}
	if n == 0 {
		c.Anchor("constructors of StringPrefixFilter that take a string literal")
	}
}
