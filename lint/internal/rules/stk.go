package rules

import (
	"fmt"
	"go/types"
	"sort"

	"regexlint/internal/core"
)

// RStk: grouping-stack discipline of the interpreter, per opcode.
//
// For every opcode the forward clause and its Back / Back2 clauses must agree on
// the grouping stack (runstack):
//   - a forward path that fails (falls to backtrack) leaves the stack untouched;
//   - all forward paths that leave by advance() have one net effect ADV(O);
//   - every path that leaves by goTo() has cumulative effect 0 (the jump target
//     is entered with the depth the opcode was entered with);
//   - a Back/Back2 clause, entered with the cumulative effect C that held when
//     its frame was pushed, either resumes forward execution with C+e = ADV(O)
//     (advance) / 0 (goTo), or fails with C+e = 0, i.e. it undoes exactly what
//     the opcode did;
//   - the two unwinding opcodes (those calling trackto: Backjump, Forejump)
//     instead undo the Setjump frame: their failing cumulative effect is
//     -ADV(Setjump).
func RStk(c *core.Ctx) {
	c.Rule("R-STK", "per opcode, forward / Back / Back2 clauses agree on the grouping stack: failing paths restore the depth the opcode was entered with, resuming paths leave ADV(O) (advance) or 0 (goTo); unwinding opcodes (trackto) undo the Setjump frame", 60)
	m := buildOpModel(c)
	if !m.ok {
		c.Anchor("bytecode model")
		return
	}
	p := c.P
	info := p.Pkg("").TypesInfo
	get := func(n string) *types.Func {
		f := p.LookupFunc("", "Runner."+n)
		if f == nil {
			c.Anchor("regexp2.Runner." + n)
		}
		return f
	}
	push1, push2, pop1, popN := get("stackPush"), get("stackPush2"), get("stackPop"), get("stackPopN")
	advance, goTo, trackto, trackposFn := get("advance"), get("goTo"), get("trackto"), get("trackpos")
	t := lookupTrackFns(c)
	opField := p.LookupField("", "Runner", "operator")
	if push1 == nil || push2 == nil || pop1 == nil || popN == nil || advance == nil || goTo == nil || trackto == nil || opField == nil {
		return
	}

	type ppath struct {
		eff    int64
		exit   string // "adv", "goto", "fail", "return"
		pos    bool   // pushes a positive frame
		neg    bool
		unwind bool
	}
	type key struct {
		op    int64
		which int // 0 fwd, 1 back, 2 back2
	}
	paths := map[key][]ppath{}
	setjumpLike := int64(-1)
	for _, cl := range m.clauses {
		pe := &pathEnum{info: info, opField: opField, mask: m.mask, limit: 4000, ok: true}
		sps := pe.paths(cl.cc.Body, -1)
		if !pe.ok {
			c.Unknown("executeDefault / clause "+m.opLabel(cl.labels[0])+" path enumeration", cl.cc.Pos(), "%s", pe.why)
			continue
		}
		for _, l := range cl.labels {
			k := key{l.op, 0}
			if l.back {
				k.which = 1
			} else if l.back2 {
				k.which = 2
			}
			for _, sp := range sps {
				pp := ppath{}
				last := ""
				undecided := false
				for _, e := range sp.events {
					if e.only >= 0 && e.only != l.op {
						continue
					}
					switch e.fn {
					case push1:
						pp.eff++
					case push2:
						pp.eff += 2
						// identify the Setjump-like opcode: pushes trackpos()
						for _, a := range e.call.Args {
							for _, ce := range pe.callsOf(a, -1) {
								if ce.fn == trackposFn && !l.back && !l.back2 {
									setjumpLike = l.op
								}
							}
						}
					case pop1:
						pp.eff--
					case popN:
						n, ok := core.ConstInt(info, e.call.Args[0])
						if !ok {
							undecided = true
						}
						pp.eff -= n
					case advance:
						last = "adv"
					case goTo:
						last = "goto"
					case trackto:
						pp.unwind = true
					}
					if _, ok := t.pushPos[e.fn]; ok {
						pp.pos = true
					}
					if _, ok := t.pushNeg[e.fn]; ok {
						pp.neg = true
					}
				}
				if undecided {
					c.Unknown("executeDefault / "+m.opLabel(l)+" stackPopN constant", cl.cc.Pos(), "non-constant stackPopN argument")
				}
				switch sp.exit {
				case exitContinue:
					if last == "" {
						c.Unknown("executeDefault / "+m.opLabel(l)+" continue without advance/goTo", cl.cc.Pos(), "a path continues the dispatch loop without moving codepos")
						continue
					}
					pp.exit = last
				case exitReturn:
					pp.exit = "return"
				default:
					pp.exit = "fail"
				}
				paths[k] = append(paths[k], pp)
			}
		}
	}
	if setjumpLike < 0 {
		c.Anchor("forward clause that saves trackpos() on the grouping stack (Setjump)")
		return
	}
	// an opcode is "unwinding" when any of its clauses discards frames with trackto
	unwindOp := map[int64]bool{}
	for k, ps := range paths {
		for _, pp := range ps {
			if pp.unwind {
				unwindOp[k.op] = true
			}
		}
	}
	// ADV per opcode
	adv := map[int64][]int64{}
	addSet := func(s []int64, v int64) []int64 {
		for _, x := range s {
			if x == v {
				return s
			}
		}
		s = append(s, v)
		sort.Slice(s, func(i, j int) bool { return s[i] < s[j] })
		return s
	}
	var ops []int64
	for op := range m.opName {
		ops = append(ops, op)
	}
	sort.Slice(ops, func(i, j int) bool { return ops[i] < ops[j] })
	for _, op := range ops {
		for _, pp := range paths[key{op, 0}] {
			if pp.exit == "adv" {
				adv[op] = addSet(adv[op], pp.eff)
			}
		}
	}
	sjAdv := adv[setjumpLike]
	if len(sjAdv) != 1 {
		c.Anchor("single advance effect of " + m.opName[setjumpLike])
		return
	}
	unwindTarget := -sjAdv[0]

	contains := func(s []int64, v int64) bool {
		for _, x := range s {
			if x == v {
				return true
			}
		}
		return false
	}
	for _, op := range ops {
		name := m.opName[op]
		fwd := paths[key{op, 0}]
		if fwd == nil && paths[key{op, 1}] == nil && paths[key{op, 2}] == nil {
			continue
		}
		pos := m.execSw.Pos()
		c.Visit("regexp2.executeDefault")
		// forward
		c.Check(len(adv[op]) <= 1, "executeDefault / "+name+" single advance effect", pos, "forward paths leaving by advance() have net grouping-stack effects %v", adv[op])
		cpos, cneg := []int64{}, []int64{}
		okFwd := true
		detail := ""
		for _, pp := range fwd {
			switch pp.exit {
			case "fail":
				want := int64(0)
				if unwindOp[op] {
					want = unwindTarget
				}
				if pp.eff != want {
					okFwd = false
					detail += fmt.Sprintf("failing forward path leaves %+d (want %+d); ", pp.eff, want)
				}
			case "goto":
				if pp.eff != 0 {
					okFwd = false
					detail += fmt.Sprintf("goTo path leaves %+d (want 0); ", pp.eff)
				}
			}
			if pp.pos {
				cpos = addSet(cpos, pp.eff)
			}
			if pp.neg {
				cneg = addSet(cneg, pp.eff)
			}
		}
		if fwd != nil {
			c.Check(okFwd, "executeDefault / "+name+" forward stack effects", pos, "%d forward paths; %s", len(fwd), detail)
		}
		// Back / Back2 to a fixpoint over the cumulative sets
		accept := func(pp ppath, cum int64) bool {
			switch pp.exit {
			case "adv":
				return contains(adv[op], cum)
			case "goto":
				return cum == 0
			case "fail":
				if unwindOp[op] {
					return cum == unwindTarget
				}
				return cum == 0
			}
			return true // return: error/stop, no constraint
		}
		for iter := 0; iter < 6; iter++ {
			n1, n2 := len(cpos), len(cneg)
			for which, cs := range map[int][]int64{1: cpos, 2: cneg} {
				for _, pp := range paths[key{op, which}] {
					for _, cum0 := range cs {
						cum := cum0 + pp.eff
						if !accept(pp, cum) {
							continue // infeasible combination (data-correlated); two-sided existential check below
						}
						if pp.pos {
							cpos = addSet(cpos, cum)
						}
						if pp.neg {
							cneg = addSet(cneg, cum)
						}
					}
				}
			}
			if len(cpos) == n1 && len(cneg) == n2 {
				break
			}
		}
		for which, cs := range map[int][]int64{1: cpos, 2: cneg} {
			bp := paths[key{op, which}]
			if bp == nil {
				continue
			}
			suffix := "|Back"
			if which == 2 {
				suffix = "|Back2"
			}
			if len(cs) == 0 {
				c.Note("clause %s%s has no frame that reaches it (dead)", name, suffix)
				continue
			}
			// every entering cumulative must have an accepting path, every path an accepting cumulative
			ok := true
			detail := ""
			for _, cum0 := range cs {
				found := false
				for _, pp := range bp {
					if accept(pp, cum0+pp.eff) {
						found = true
					}
				}
				if !found {
					ok = false
					detail += fmt.Sprintf("entered with cumulative %+d no path restores a legal depth; ", cum0)
				}
			}
			for i, pp := range bp {
				found := false
				for _, cum0 := range cs {
					if accept(pp, cum0+pp.eff) {
						found = true
					}
				}
				if !found {
					ok = false
					detail += fmt.Sprintf("path %d (effect %+d, exit %s) is legal for no entering cumulative %v; ", i, pp.eff, pp.exit, cs)
				}
			}
			c.Check(ok, "executeDefault / "+name+suffix+" stack effects", pos, "entering cumulatives %v, %d paths, ADV=%v; %s", cs, len(bp), adv[op], detail)
		}
	}
}
