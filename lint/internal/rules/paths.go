package rules

import (
	"go/ast"
	"go/token"
	"go/types"

	"regexlint/internal/core"
)

// A structured path enumerator for small statement lists (interpreter clauses,
// emitFragment arms).  It understands block / if / for / switch-free code with
// break, continue, goto and return, which is all these bodies contain.  Loops
// are taken zero or one time.  Unknown statement kinds make the enumeration
// fail (ok=false) so that a rule reports "undecided" instead of guessing.

type exitKind int

const (
	exitFall exitKind = iota // fell off the end of the list
	exitBreak
	exitContinue
	exitGoto
	exitReturn
)

type callEvent struct {
	fn   *types.Func
	call *ast.CallExpr
	only int64 // >=0 when guarded by `<opField> == const` (value & mask)
}

type condFact struct {
	expr string
	val  bool
}

type stmtPath struct {
	events []callEvent
	facts  []condFact
	exit   exitKind
}

type pathEnum struct {
	info    *types.Info
	opField *types.Var // field whose equality tests restrict events (may be nil)
	mask    int64
	limit   int
	ok      bool
	why     string
}

func (pe *pathEnum) fail(why string, n ast.Node) {
	if pe.ok {
		pe.ok = false
		pe.why = why
	}
}

// callsOf returns call events of an expression/simple statement in evaluation
// order (arguments before the call).
func (pe *pathEnum) callsOf(n ast.Node, only int64) []callEvent {
	var ev []callEvent
	var visit func(x ast.Node)
	visit = func(x ast.Node) {
		if x == nil {
			return
		}
		ast.Inspect(x, func(y ast.Node) bool {
			if _, ok := y.(*ast.FuncLit); ok {
				return false
			}
			call, ok := y.(*ast.CallExpr)
			if !ok {
				return true
			}
			visit(call.Fun)
			for _, a := range call.Args {
				visit(a)
			}
			if fn := core.Callee(pe.info, call); fn != nil {
				ev = append(ev, callEvent{fn, call, only})
			}
			return false
		})
	}
	visit(n)
	return ev
}

func (pe *pathEnum) guardOf(cond ast.Expr, only int64) int64 {
	if pe.opField == nil {
		return only
	}
	for _, cj := range conjuncts(cond) {
		if be, ok := cj.(*ast.BinaryExpr); ok && be.Op == token.EQL {
			if core.FieldOf(pe.info, be.X) == pe.opField {
				if v, ok := core.ConstInt(pe.info, be.Y); ok {
					return v & pe.mask
				}
			}
		}
	}
	return only
}

// paths enumerates paths through stmts.  Each returned path ends with an exit
// kind; exitFall paths continue with whatever follows the list.
func (pe *pathEnum) paths(stmts []ast.Stmt, only int64) []stmtPath {
	cur := []stmtPath{{}}
	for _, s := range stmts {
		var next []stmtPath
		var done []stmtPath
		for _, p := range cur {
			if p.exit != exitFall {
				done = append(done, p)
				continue
			}
			for _, q := range pe.stmt(s, only) {
				if contradicts(p.facts, q.facts) {
					continue // infeasible: the same side-effect-free condition with both polarities
				}
				np := stmtPath{events: append(append([]callEvent(nil), p.events...), q.events...),
					facts: append(append([]condFact(nil), p.facts...), q.facts...), exit: q.exit}
				next = append(next, np)
			}
		}
		cur = append(done, next...)
		if len(cur) > pe.limit {
			pe.fail("too many paths", s)
			return cur
		}
	}
	return cur
}

func (pe *pathEnum) stmt(s ast.Stmt, only int64) []stmtPath {
	switch n := s.(type) {
	case nil:
		return []stmtPath{{}}
	case *ast.BlockStmt:
		return pe.paths(n.List, only)
	case *ast.ExprStmt, *ast.AssignStmt, *ast.IncDecStmt, *ast.DeclStmt:
		return []stmtPath{{events: pe.callsOf(n, only)}}
	case *ast.EmptyStmt:
		return []stmtPath{{}}
	case *ast.LabeledStmt:
		return pe.stmt(n.Stmt, only)
	case *ast.ReturnStmt:
		return []stmtPath{{events: pe.callsOf(n, only), exit: exitReturn}}
	case *ast.BranchStmt:
		switch n.Tok {
		case token.BREAK:
			return []stmtPath{{exit: exitBreak}}
		case token.CONTINUE:
			return []stmtPath{{exit: exitContinue}}
		case token.GOTO:
			return []stmtPath{{exit: exitGoto}}
		}
		pe.fail("unsupported branch", n)
		return []stmtPath{{}}
	case *ast.IfStmt:
		pre := pe.callsOf(n.Init, only)
		pre = append(pre, pe.callsOf(n.Cond, only)...)
		var out []stmtPath
		for _, p := range pe.paths(n.Body.List, pe.guardOf(n.Cond, only)) {
			out = append(out, stmtPath{events: append(append([]callEvent(nil), pre...), p.events...), facts: append(factsOf(n.Cond, true), p.facts...), exit: p.exit})
		}
		var els []stmtPath
		if n.Else != nil {
			els = pe.stmt(n.Else, only)
		} else {
			els = []stmtPath{{}}
		}
		for _, p := range els {
			out = append(out, stmtPath{events: append(append([]callEvent(nil), pre...), p.events...), facts: append(factsOf(n.Cond, false), p.facts...), exit: p.exit})
		}
		return out
	case *ast.ForStmt:
		pre := pe.callsOf(n.Init, only)
		pre = append(pre, pe.callsOf(n.Cond, only)...)
		out := []stmtPath{{events: pre}} // zero iterations
		for _, p := range pe.paths(n.Body.List, only) {
			q := stmtPath{events: append(append([]callEvent(nil), pre...), p.events...), facts: p.facts, exit: p.exit}
			switch p.exit {
			case exitBreak, exitContinue, exitFall:
				q.exit = exitFall // leaves the loop (one iteration modelled)
				if p.exit != exitBreak {
					q.events = append(q.events, pe.callsOf(n.Post, only)...)
					q.events = append(q.events, pe.callsOf(n.Cond, only)...)
				}
			}
			out = append(out, q)
		}
		return out
	case *ast.RangeStmt:
		pre := pe.callsOf(n.X, only)
		out := []stmtPath{{events: pre}}
		for _, p := range pe.paths(n.Body.List, only) {
			q := stmtPath{events: append(append([]callEvent(nil), pre...), p.events...), facts: p.facts, exit: p.exit}
			if p.exit == exitBreak || p.exit == exitContinue {
				q.exit = exitFall
			}
			out = append(out, q)
		}
		return out
	case *ast.SwitchStmt:
		pre := pe.callsOf(n.Init, only)
		pre = append(pre, pe.callsOf(n.Tag, only)...)
		tag := ""
		if n.Tag != nil {
			tag = types.ExprString(n.Tag)
		}
		var out []stmtPath
		hasDefault := false
		if n.Tag == nil {
			// a tagless switch is an if / else-if chain: clause k is taken when its
			// (single) condition holds and the conditions of the clauses before it do not
			var before []condFact
			var deflt *ast.CaseClause
			emit := func(cc *ast.CaseClause, facts []condFact, evs []callEvent) {
				for _, p := range pe.paths(cc.Body, only) {
					if contradicts(facts, p.facts) {
						continue
					}
					q := stmtPath{events: append(append([]callEvent(nil), evs...), p.events...), facts: append(append([]condFact(nil), facts...), p.facts...), exit: p.exit}
					if p.exit == exitBreak {
						q.exit = exitFall
					}
					out = append(out, q)
				}
			}
			evs := append([]callEvent(nil), pre...)
			for _, st := range n.Body.List {
				cc := st.(*ast.CaseClause)
				if cc.List == nil {
					deflt = cc
					continue
				}
				for _, e := range cc.List {
					evs = append(evs, pe.callsOf(e, only)...)
				}
				facts := append([]condFact(nil), before...)
				if len(cc.List) == 1 {
					facts = append(facts, factsOf(cc.List[0], true)...)
				}
				if !contradicts(before, facts[len(before):]) {
					emit(cc, facts, evs)
				}
				for _, e := range cc.List {
					before = append(before, factsOf(e, false)...)
				}
			}
			if deflt != nil {
				emit(deflt, before, evs)
			} else {
				out = append(out, stmtPath{events: evs, facts: before})
			}
			return out
		}
		for _, st := range n.Body.List {
			cc := st.(*ast.CaseClause)
			lbl := "default"
			if cc.List == nil {
				hasDefault = true
			} else {
				lbl = ""
				for i, e := range cc.List {
					if i > 0 {
						lbl += ","
					}
					lbl += types.ExprString(e)
				}
			}
			for _, p := range pe.paths(cc.Body, only) {
				q := stmtPath{events: append(append([]callEvent(nil), pre...), p.events...), facts: append([]condFact{{tag + " in {" + lbl + "}", true}}, p.facts...), exit: p.exit}
				if p.exit == exitBreak {
					q.exit = exitFall
				}
				out = append(out, q)
			}
		}
		if !hasDefault {
			out = append(out, stmtPath{events: pre, facts: []condFact{{tag + " in {}", true}}})
		}
		return out
	}
	pe.fail("unsupported statement kind", s)
	return []stmtPath{{}}
}

// condKey renders a side-effect-free condition in a canonical spelling so that
// `a > b` and `b < a`, `a == b` and `b == a` are the same fact.
func condKey(e ast.Expr) string {
	e = ast.Unparen(e)
	if be, ok := e.(*ast.BinaryExpr); ok {
		x, y := types.ExprString(ast.Unparen(be.X)), types.ExprString(ast.Unparen(be.Y))
		switch be.Op {
		case token.GTR:
			return y + " < " + x
		case token.GEQ:
			return y + " <= " + x
		case token.LSS:
			return x + " < " + y
		case token.LEQ:
			return x + " <= " + y
		case token.EQL, token.NEQ:
			if y < x {
				x, y = y, x
			}
			return x + " " + be.Op.String() + " " + y
		}
	}
	return types.ExprString(e)
}

// factsOf splits "cond has value val" into facts about its parts: a true
// conjunction makes every conjunct true, a false disjunction makes every
// disjunct false, a negation flips.  What cannot be split stays whole.
func factsOf(cond ast.Expr, val bool) []condFact {
	e := ast.Unparen(cond)
	if u, ok := e.(*ast.UnaryExpr); ok && u.Op == token.NOT {
		return factsOf(u.X, !val)
	}
	if be, ok := e.(*ast.BinaryExpr); ok {
		if (be.Op == token.LAND && val) || (be.Op == token.LOR && !val) {
			return append(factsOf(be.X, val), factsOf(be.Y, val)...)
		}
	}
	return []condFact{{condKey(e), val}}
}

// contradicts reports whether two fact lists assign different truth values to
// the same pure condition text.  Conditions containing calls (other than
// len/cap) are never considered, nor are conditions over variables the
// enumerated code may assign between the two tests — callers use this only for
// bodies that do not assign the variables they branch on (interpreter clauses
// re-test `r.operator`, writer arms re-test node.M / curIndex).
func contradicts(a, b []condFact) bool {
	for _, x := range a {
		if !pureCondText(x.expr) {
			continue
		}
		for _, y := range b {
			if x.expr == y.expr && x.val != y.val {
				return true
			}
		}
	}
	return false
}

func pureCondText(s string) bool {
	// calls appear as "name(" in types.ExprString output; allow len( and cap(
	for i := 0; i < len(s); i++ {
		if s[i] == '(' && i > 0 {
			j := i
			for j > 0 && (s[j-1] == '_' || s[j-1] >= 'a' && s[j-1] <= 'z' || s[j-1] >= 'A' && s[j-1] <= 'Z' || s[j-1] >= '0' && s[j-1] <= '9' || s[j-1] == '.') {
				j--
			}
			name := s[j:i]
			if name != "" && name != "len" && name != "cap" {
				return false
			}
		}
	}
	return true
}
