package rules

import (
	"fmt"
	"go/ast"
	"go/token"
	"go/types"
	"sort"

	"golang.org/x/tools/go/ssa"

	"regexlint/internal/core"
)

// ---------------------------------------------------------------------------
// R-TABLEDOM: a lookup table that one function fills under a constant upper
// bound on the indexed value is read by every other function under a bound
// that is at least as wide.  (Boyer-Moore bad-character table: an entry that
// the builder records but the scanner never consults makes the scanner use the
// "character does not occur in the literal" shift for a character that does
// occur, and the scan jumps over an occurrence.)
// ---------------------------------------------------------------------------

type domSite struct {
	fn    string
	ins   ssa.Instruction
	write bool
	ub    int64
	has   bool
	shape string
}

// upperBoundAt: the tightest constant inclusive upper bound on v that the
// branch facts dominating b establish.
func upperBoundAt(v ssa.Value, b *ssa.BasicBlock) (int64, bool) {
	best, has := int64(0), false
	for _, f := range core.FactsAtBlock(b) {
		x, y, op, ok := core.CmpNorm(f)
		if !ok || x != v {
			continue
		}
		k, isC := core.IntConst(y)
		if !isC {
			continue
		}
		switch op {
		case token.LSS:
			k--
		case token.LEQ:
		case token.EQL:
		default:
			continue
		}
		if !has || k < best {
			best, has = k, true
		}
	}
	return best, has
}

func isWriteAddr(ia *ssa.IndexAddr) bool {
	for _, r := range core.Referrers(ia) {
		if st, ok := r.(*ssa.Store); ok && st.Addr == ia {
			return true
		}
	}
	return false
}

func RTableDom(c *core.Ctx) {
	c.Rule("R-TABLEDOM", "for every table held in a struct field that some function fills at an index computed from a value v under a constant upper bound v <= W, every lookup of that table (same index shape) in another function that is itself guarded by a constant bound v <= R has R >= W: no entry the builder records is out of the reader's reach", 2)
	p := c.P
	sites := map[*types.Var]map[string][]domSite{}
	for _, fn := range p.ModuleFuncs() {
		name := core.SSAName(fn)
		for _, b := range fn.Blocks {
			for _, ins := range b.Instrs {
				var base, idx ssa.Value
				write := false
				switch x := ins.(type) {
				case *ssa.IndexAddr:
					base, idx = x.X, x.Index
					write = isWriteAddr(x)
				case *ssa.Index:
					base, idx = x.X, x.Index
				default:
					continue
				}
				ld, ok := base.(*ssa.UnOp)
				if !ok {
					continue
				}
				f := core.FieldVarOfAddr(ld.X)
				if f == nil {
					continue
				}
				shape, root := idxShape(idx, 0)
				if root == nil {
					continue
				}
				ub, has := upperBoundAt(root, b)
				if sites[f] == nil {
					sites[f] = map[string][]domSite{}
				}
				sites[f][shape] = append(sites[f][shape], domSite{name, ins, write, ub, has, shape})
			}
		}
	}
	type fk struct {
		f     *types.Var
		shape string
	}
	var keys []fk
	for f, m := range sites {
		for sh := range m {
			keys = append(keys, fk{f, sh})
		}
	}
	sort.Slice(keys, func(i, j int) bool {
		if keys[i].f.Name() != keys[j].f.Name() {
			return keys[i].f.Name() < keys[j].f.Name()
		}
		return keys[i].shape < keys[j].shape
	})
	n := 0
	for _, k := range keys {
		ss := sites[k.f][k.shape]
		// widest bounded writer
		var w *domSite
		for i := range ss {
			if ss[i].write && ss[i].has && (w == nil || ss[i].ub > w.ub) {
				w = &ss[i]
			}
		}
		if w == nil {
			continue
		}
		sort.Slice(ss, func(i, j int) bool { return ss[i].ins.Pos() < ss[j].ins.Pos() })
		cnt := map[string]int{}
		for _, s := range ss {
			if s.write || !s.has || s.fn == w.fn {
				continue
			}
			cnt[s.fn]++
			n++
			c.Visit(s.fn)
			c.Check(s.ub >= w.ub, fmt.Sprintf("%s / lookup #%d of %s[%s] reaches everything %s records", s.fn, cnt[s.fn], k.f.Name(), k.shape, w.fn), s.ins.Pos(),
				"the lookup is made only for values <= %#x, but %s (%s) records entries for values up to %#x: for the values in between the reader falls back to its default although the table holds an entry", s.ub, w.fn, p.Pos(w.ins.Pos()), w.ub)
		}
	}
	if n == 0 {
		c.Anchor("a bounded table writer with a bounded reader in another function")
	}
}

// ---------------------------------------------------------------------------
// R-COMPL: building the complement of one character as two ranges.
//   if ch > L { addRange(L, ch-1) }     if ch < T { addRange(ch+1, T) }
// The guard constant must be the range's own end: a smaller guard (the 16-bit
// 0xFFFF of the original) silently drops [ch+1, T] for the values in between
// and the "first characters" set published for the pattern is too small.
// ---------------------------------------------------------------------------

func RCompl(c *core.Ctx) {
	c.Rule("R-COMPL", "wherever a set is built as the complement of a single character by addRange(L, x-1) / addRange(x+1, T) with constant ends, the guard that protects the call from an empty range is exactly x > L / x < T (a narrower guard drops the whole upper or lower part for some x, so the published set is smaller than the complement)", 2)
	p := c.P
	syn := p.Pkg("syntax")
	info := syn.TypesInfo
	addRange := p.LookupFunc("syntax", "CharSet.addRange")
	if addRange == nil {
		c.Anchor("syntax.CharSet.addRange")
		return
	}
	n := 0
	for _, fd := range p.FuncDecls(syn) {
		if fd.Body == nil || p.IsTestFile(fd.Pos()) {
			continue
		}
		name := core.DeclName(syn, fd)
		var stack []ast.Node
		cnt := 0
		ast.Inspect(fd.Body, func(x ast.Node) bool {
			if x == nil {
				stack = stack[:len(stack)-1]
				return true
			}
			stack = append(stack, x)
			call, ok := x.(*ast.CallExpr)
			if !ok || core.Callee(info, call) != addRange || len(call.Args) != 2 {
				return true
			}
			// which end is x±1, which is constant?
			var varExpr ast.Expr
			var end int64
			upper := false
			if be, ok := ast.Unparen(call.Args[0]).(*ast.BinaryExpr); ok && be.Op == token.ADD {
				if one, ok := core.ConstInt(info, be.Y); ok && one == 1 {
					if t, ok := core.ConstInt(info, call.Args[1]); ok {
						varExpr, end, upper = be.X, t, true
					}
				}
			}
			if be, ok := ast.Unparen(call.Args[1]).(*ast.BinaryExpr); ok && be.Op == token.SUB && varExpr == nil {
				if one, ok := core.ConstInt(info, be.Y); ok && one == 1 {
					if l, ok := core.ConstInt(info, call.Args[0]); ok {
						varExpr, end = be.X, l
					}
				}
			}
			if varExpr == nil {
				return true
			}
			cnt++
			n++
			c.Visit(name)
			vs := types.ExprString(ast.Unparen(varExpr))
			key := fmt.Sprintf("%s / complement range #%d guard matches its constant end", name, cnt)
			// innermost enclosing if whose then-branch holds the call and whose condition bounds varExpr by a constant
			for i := len(stack) - 2; i >= 0; i-- {
				ifs, ok := stack[i].(*ast.IfStmt)
				if !ok || !(ifs.Body.Pos() <= call.Pos() && call.End() <= ifs.Body.End()) {
					continue
				}
				for _, cj := range conjuncts(ifs.Cond) {
					be, ok := ast.Unparen(cj).(*ast.BinaryExpr)
					if !ok {
						continue
					}
					l, r, op := be.X, be.Y, be.Op
					if _, isC := core.ConstInt(info, l); isC {
						l, r = r, l
						switch op {
						case token.LSS:
							op = token.GTR
						case token.GTR:
							op = token.LSS
						case token.LEQ:
							op = token.GEQ
						case token.GEQ:
							op = token.LEQ
						}
					}
					k, isC := core.ConstInt(info, r)
					if !isC || types.ExprString(ast.Unparen(l)) != vs {
						continue
					}
					// normalise to strict form: x < K' (upper) or x > K' (lower)
					switch {
					case upper && op == token.LSS:
					case upper && op == token.LEQ:
						k++
					case upper && op == token.NEQ:
					case !upper && op == token.GTR:
					case !upper && op == token.GEQ:
						k--
					case !upper && op == token.NEQ:
					default:
						continue
					}
					if upper {
						c.Check(k == end, key, call.Pos(), "addRange(%s+1, %#x) runs only when %s < %#x: for %s in [%#x, %#x) nothing above %s is added", vs, end, vs, k, vs, k, end, vs)
					} else {
						c.Check(k == end, key, call.Pos(), "addRange(%#x, %s-1) runs only when %s > %#x: for %s in (%#x, %#x] nothing below %s is added", end, vs, vs, k, vs, end, k, vs)
					}
					return true
				}
			}
			c.Unknown(key, call.Pos(), "no enclosing constant guard on %s found", vs)
			return true
		})
	}
	if n == 0 {
		c.Anchor("a complement-of-one-character construction (addRange(x+1, const) / addRange(const, x-1))")
	}
}

// ---------------------------------------------------------------------------
// R-LMMIN: the landmark prefilter hands the position *after* one landmark to
// the search for the next one.  That position has to be the earliest place at
// which the following text can start: start + len(literal) or start +
// MinRepeat.  If it is instead the end of a greedy scan over the text (as far
// as the set keeps matching), a real match whose repetition stopped earlier
// has its next landmark before that position and the prefilter reports "no
// match possible".
// ---------------------------------------------------------------------------

func RLmMin(c *core.Ctx) {
	c.Rule("R-LMMIN", "the End that requiredLandmarkAlternativeMatch reports (the position from which the next required landmark is searched) is an affine function of the occurrence's start and pattern constants (len(alt.Literal), alt.MinRepeat) — never a counter advanced by a loop whose exit depends on the text, which would be the greedy extent rather than the minimal one", 1)
	p := c.P
	fn := p.SSAFunc(p.LookupFunc("", "requiredLandmarkAlternativeMatch"))
	chain := p.SSAFunc(p.LookupFunc("", "findRequiredLandmarkChainLeftToRight"))
	endF := p.LookupField("", "requiredLandmarkMatch", "End")
	if fn == nil || chain == nil || endF == nil {
		c.Anchor("requiredLandmarkAlternativeMatch / findRequiredLandmarkChainLeftToRight / requiredLandmarkMatch.End")
		return
	}
	name := core.SSAName(fn)
	c.Visit(name)
	// the chain search must in fact take its next start from End (otherwise this rule checks nothing useful)
	usesEnd := false
	for _, b := range chain.Blocks {
		for _, ins := range b.Instrs {
			switch x := ins.(type) {
			case *ssa.Field:
				if st, ok := x.X.Type().Underlying().(*types.Struct); ok && st.Field(x.Field) == endF {
					usesEnd = true
				}
			case *ssa.FieldAddr:
				if core.FieldVarOfAddr(x) == endF {
					usesEnd = true
				}
			}
		}
	}
	if !usesEnd {
		c.Anchor("findRequiredLandmarkChainLeftToRight reading requiredLandmarkMatch.End")
		return
	}
	// text-dependent values: anything computed from an element of a []rune parameter
	textDep := func(v ssa.Value) bool {
		seen := map[ssa.Value]bool{}
		var walk func(v ssa.Value, d int) bool
		walk = func(v ssa.Value, d int) bool {
			if v == nil || seen[v] || d > 12 {
				return false
			}
			seen[v] = true
			switch x := v.(type) {
			case *ssa.IndexAddr:
				if _, ok := x.X.(*ssa.Parameter); ok {
					return true
				}
			case *ssa.Index:
				if _, ok := x.X.(*ssa.Parameter); ok {
					return true
				}
			}
			if ins, ok := v.(ssa.Instruction); ok {
				for _, op := range ins.Operands(nil) {
					if *op != nil && walk(*op, d+1) {
						return true
					}
				}
			}
			return false
		}
		return walk(v, 0)
	}
	// blocks on a cycle with b
	reach := func(from *ssa.BasicBlock) map[*ssa.BasicBlock]bool {
		out := map[*ssa.BasicBlock]bool{}
		work := append([]*ssa.BasicBlock(nil), from.Succs...)
		for len(work) > 0 {
			x := work[0]
			work = work[1:]
			if out[x] {
				continue
			}
			out[x] = true
			work = append(work, x.Succs...)
		}
		return out
	}
	// classify a value: "affine", "greedy" (loop counter with text-dependent exit), or "unknown"
	var classify func(v ssa.Value, inProgress map[ssa.Value]bool, d int) (string, string)
	classify = func(v ssa.Value, inProgress map[ssa.Value]bool, d int) (string, string) {
		if d > 16 {
			return "unknown", "expression too deep"
		}
		switch x := v.(type) {
		case *ssa.Const, *ssa.Parameter:
			return "affine", ""
		case *ssa.Convert:
			return classify(x.X, inProgress, d+1)
		case *ssa.BinOp:
			if x.Op != token.ADD && x.Op != token.SUB {
				return "unknown", "operator " + x.Op.String()
			}
			a, wa := classify(x.X, inProgress, d+1)
			b, wb := classify(x.Y, inProgress, d+1)
			if a == "greedy" || b == "greedy" {
				return "greedy", wa + wb
			}
			if a == "affine" && b == "affine" {
				return "affine", ""
			}
			return "unknown", wa + wb
		case *ssa.UnOp:
			if x.Op == token.MUL {
				if fa, ok := x.X.(*ssa.FieldAddr); ok {
					if _, isParam := fa.X.(*ssa.Parameter); isParam {
						return "affine", "" // a field of the landmark description
					}
					if a, ok := fa.X.(*ssa.Alloc); ok && !a.Heap {
						_ = a
					}
				}
				// a spilled parameter (value receiver / struct parameter copied to a local)
				if fa, ok := x.X.(*ssa.FieldAddr); ok {
					if al, ok := fa.X.(*ssa.Alloc); ok {
						for _, r := range core.Referrers(al) {
							if st, ok := r.(*ssa.Store); ok && st.Addr == al {
								if _, isParam := st.Val.(*ssa.Parameter); isParam {
									return "affine", ""
								}
							}
						}
					}
				}
			}
			return "unknown", "load " + x.String()
		case *ssa.Field:
			if _, ok := x.X.(*ssa.Parameter); ok {
				return "affine", ""
			}
			return "unknown", "field of a computed struct"
		case *ssa.Call:
			if bi, ok := x.Call.Value.(*ssa.Builtin); ok && bi.Name() == "len" {
				return "affine", "" // length of a pattern literal (or of a parameter)
			}
			return "unknown", "call " + x.String()
		case *ssa.Phi:
			if inProgress[x] {
				// loop-carried: is some exit of the loop decided by the text?
				r := reach(x.Block())
				if r[x.Block()] {
					for b := range r {
						if !reach(b)[x.Block()] {
							continue
						}
						if ifi, ok := b.Instrs[len(b.Instrs)-1].(*ssa.If); ok && textDep(ifi.Cond) {
							return "greedy", fmt.Sprintf("counter %s is advanced in a loop whose exit at %s tests the text", x.Comment, p.Pos(ifi.Cond.Pos()))
						}
					}
				}
				return "unknown", "loop-carried value"
			}
			inProgress[x] = true
			defer delete(inProgress, x)
			res, why := "affine", ""
			for _, e := range x.Edges {
				k, w := classify(e, inProgress, d+1)
				if k == "greedy" {
					return "greedy", w
				}
				if k != "affine" {
					res, why = "unknown", w
				}
			}
			return res, why
		}
		return "unknown", fmt.Sprintf("%T", v)
	}
	n := 0
	for _, b := range fn.Blocks {
		for _, ins := range b.Instrs {
			st, ok := ins.(*ssa.Store)
			if !ok || core.FieldVarOfAddr(st.Addr) != endF {
				continue
			}
			if k, isC := core.IntConst(st.Val); isC && k == 0 {
				continue // the zero value returned together with ok=false
			}
			n++
			kind, why := classify(st.Val, map[ssa.Value]bool{}, 0)
			key := fmt.Sprintf("%s / End #%d is the minimal extent", name, n)
			switch kind {
			case "affine":
				c.OK(key, st.Pos(), "start plus pattern constants")
			case "greedy":
				c.Bad(key, st.Pos(), "End is the greedy extent: %s; the next landmark of a real match whose repetition stopped earlier lies before it and is never found", why)
			default:
				c.Unknown(key, st.Pos(), "cannot classify the End value: %s", why)
			}
		}
	}
	if n == 0 {
		c.Anchor("a store to requiredLandmarkMatch.End in requiredLandmarkAlternativeMatch")
	}
}

// ---------------------------------------------------------------------------
// R-NEGFRESH: "negate" flips the meaning of everything a CharSet already
// holds.  Outside CharSet's own methods the flag may therefore be switched on
// only for a set that was created in the same function (it holds exactly what
// this function put into it) or that is known to be empty; switching it on for
// an accumulator that arrived from the caller turns {a} ∪ [^b] into [^ab].
// ---------------------------------------------------------------------------

func RNegFresh(c *core.Ctx) {
	c.Rule("R-NEGFRESH", "every assignment that may set CharSet.negate outside CharSet's own methods targets a set created in the same function on every path, or one that the dominating branch conditions show to be empty (len(s.ranges) == 0): negating an accumulator that already holds members inverts those members too", 3)
	p := c.P
	neg := p.LookupField("syntax", "CharSet", "negate")
	ranges := p.LookupField("syntax", "CharSet", "ranges")
	if neg == nil || ranges == nil {
		c.Anchor("syntax.CharSet.negate / ranges")
		return
	}
	var fresh func(v ssa.Value, seen map[ssa.Value]bool) bool
	fresh = func(v ssa.Value, seen map[ssa.Value]bool) bool {
		if seen[v] {
			return true
		}
		seen[v] = true
		switch x := v.(type) {
		case *ssa.Alloc:
			return true
		case *ssa.Const:
			return x.IsNil()
		case *ssa.Phi:
			for _, e := range x.Edges {
				if !fresh(e, seen) {
					return false
				}
			}
			return true
		}
		return false
	}
	n := 0
	for _, fn := range p.ModuleFuncs() {
		if core.FnPkgPath(fn) == "" {
			continue
		}
		if recv := fn.Signature.Recv(); recv != nil {
			if _, nm := core.NamedOf(recv.Type()); nm == "CharSet" {
				continue // the type's own methods maintain the representation
			}
		}
		name := core.SSAName(fn)
		cnt := 0
		for _, b := range fn.Blocks {
			for _, ins := range b.Instrs {
				st, ok := ins.(*ssa.Store)
				if !ok || core.FieldVarOfAddr(st.Addr) != neg {
					continue
				}
				if k, isC := st.Val.(*ssa.Const); isC && k.Value != nil && k.Value.String() == "false" {
					continue
				}
				fa := st.Addr.(*ssa.FieldAddr)
				cnt++
				n++
				c.Visit(name)
				key := fmt.Sprintf("%s / negate write #%d targets a fresh or empty set", name, cnt)
				if fresh(fa.X, map[ssa.Value]bool{}) {
					c.OK(key, st.Pos(), "the set is created in this function")
					continue
				}
				// emptiness established by a dominating test: len(s.ranges) == 0
				empty := false
				for _, f := range core.FactsAtBlock(b) {
					x, y, op, ok := core.CmpNorm(f)
					if !ok || op != token.EQL {
						continue
					}
					if k, isC := core.IntConst(x); isC && k == 0 {
						x, y = y, x
					}
					if k, isC := core.IntConst(y); !isC || k != 0 {
						continue
					}
					call, isCall := x.(*ssa.Call)
					if !isCall {
						continue
					}
					if bi, isB := call.Call.Value.(*ssa.Builtin); !isB || bi.Name() != "len" {
						continue
					}
					if ld, isLd := call.Call.Args[0].(*ssa.UnOp); isLd {
						if fa2, isFA := ld.X.(*ssa.FieldAddr); isFA && core.FieldVarOfAddr(fa2) == ranges && core.SameValue(fa2.X, fa.X) {
							empty = true
						}
					}
				}
				c.Check(empty, key, st.Pos(), "the set reaches this assignment from outside the function (parameter or caller-owned accumulator) on some path and is not known to be empty: members it already holds change meaning")
			}
		}
	}
	if n == 0 {
		c.Anchor("an assignment to CharSet.negate outside CharSet's methods")
	}
}

// ---------------------------------------------------------------------------
// R-FLIPADD: canonicalize rewrites "everything but one range" as a negated
// class.  It runs at the end of every adding method, i.e. while a class may
// still be receiving members; a member added after the rewrite would land in
// the complement.  Typestate: every method that appends to the ranges or
// categories of its receiver first passes through the routine that undoes the
// rewrite (a CharSet method that clears negate), itself or in all its callers.
// ---------------------------------------------------------------------------

func RFlipAdd(c *core.Ctx) {
	c.Rule("R-FLIPADD", "CharSet methods that canonicalize (and may thereby switch the class to its negated form) are also the methods that add members; therefore every method that appends to the receiver's ranges or categories, or replaces the range list by a fresh one, is preceded on every path — in the method or at every call site of it — by a call to the routine that restores the positive form (a CharSet method that clears negate)", 5)
	p := c.P
	neg := p.LookupField("syntax", "CharSet", "negate")
	rng := p.LookupField("syntax", "CharSet", "ranges")
	cats := p.LookupField("syntax", "CharSet", "categories")
	if neg == nil || rng == nil || cats == nil {
		c.Anchor("syntax.CharSet.negate / ranges / categories")
		return
	}
	isRecv := func(fn *ssa.Function, v ssa.Value) bool {
		return len(fn.Params) > 0 && v == fn.Params[0]
	}
	var methods []*ssa.Function
	for _, fn := range p.ModuleFuncs() {
		if recv := fn.Signature.Recv(); recv != nil {
			if _, isPtr := recv.Type().(*types.Pointer); isPtr {
				if _, nm := core.NamedOf(recv.Type()); nm == "CharSet" {
					methods = append(methods, fn)
				}
			}
		}
	}
	flipper, restorer := map[*ssa.Function]bool{}, map[*ssa.Function]bool{}
	type addSite struct {
		ins ssa.Instruction
		f   *types.Var
	}
	adders := map[*ssa.Function][]addSite{}
	for _, fn := range methods {
		for _, b := range fn.Blocks {
			for _, ins := range b.Instrs {
				st, ok := ins.(*ssa.Store)
				if !ok {
					continue
				}
				fa, ok := st.Addr.(*ssa.FieldAddr)
				if !ok || !isRecv(fn, fa.X) {
					continue
				}
				switch core.FieldVarOfAddr(fa) {
				case neg:
					if k, isC := st.Val.(*ssa.Const); isC && k.Value != nil {
						if k.Value.String() == "true" {
							flipper[fn] = true
						} else {
							restorer[fn] = true
						}
					} else {
						flipper[fn] = true
					}
				case rng, cats:
					// the whole member list replaced by a fresh one (makeAnything: "all of Unicode"):
					// the new members are meant positively too
					if core.FieldVarOfAddr(fa) == rng {
						if sl, ok := st.Val.(*ssa.Slice); ok {
							if _, fresh := sl.X.(*ssa.Alloc); fresh {
								adders[fn] = append(adders[fn], addSite{st, rng})
							}
						}
					}
					// an append whose first operand is the field's own value
					if call, ok := st.Val.(*ssa.Call); ok {
						if bi, ok := call.Call.Value.(*ssa.Builtin); ok && bi.Name() == "append" {
							if ld, ok := call.Call.Args[0].(*ssa.UnOp); ok {
								if fa2, ok := ld.X.(*ssa.FieldAddr); ok && isRecv(fn, fa2.X) && core.FieldVarOfAddr(fa2) == core.FieldVarOfAddr(fa) {
									adders[fn] = append(adders[fn], addSite{st, core.FieldVarOfAddr(fa)})
								}
							}
						}
					}
				}
			}
		}
	}
	if len(flipper) == 0 {
		c.Anchor("a CharSet method that switches negate on (canonicalize)")
		return
	}
	// call sites among the methods (receiver passed on)
	type csite struct {
		caller *ssa.Function
		call   *ssa.Call
	}
	callers := map[*ssa.Function][]csite{}
	callsRestorer := func(ins ssa.Instruction) bool {
		call, ok := ins.(*ssa.Call)
		if !ok {
			return false
		}
		cal := call.Call.StaticCallee()
		return cal != nil && restorer[cal]
	}
	for _, fn := range methods {
		for _, b := range fn.Blocks {
			for _, ins := range b.Instrs {
				if call, ok := ins.(*ssa.Call); ok {
					if cal := call.Call.StaticCallee(); cal != nil && len(call.Call.Args) > 0 && isRecv(fn, call.Call.Args[0]) {
						callers[cal] = append(callers[cal], csite{fn, call})
					}
				}
			}
		}
	}
	// does a flipper run between adds at all? (some adder reaches a flipper)
	var restoredBefore func(fn *ssa.Function, at ssa.Instruction, depth int) (bool, string)
	restoredBefore = func(fn *ssa.Function, at ssa.Instruction, depth int) (bool, string) {
		// a restorer call in the same block before `at`, or in a dominating block
		for _, b := range fn.Blocks {
			for _, ins := range b.Instrs {
				if !callsRestorer(ins) {
					continue
				}
				if b == at.Block() {
					for _, x := range b.Instrs {
						if x == ins {
							return true, ""
						}
						if x == at {
							break
						}
					}
				} else if b.Dominates(at.Block()) {
					return true, ""
				}
			}
		}
		if depth >= 3 {
			return false, "call chain too deep"
		}
		cs := callers[fn]
		if len(cs) == 0 {
			return false, "no call to a routine that restores the positive form precedes it"
		}
		for _, s := range cs {
			if s.caller == fn {
				continue
			}
			if flipper[s.caller] || restorer[s.caller] {
				continue // canonicalize / the un-flip routine decide the form themselves
			}
			if ok, _ := restoredBefore(s.caller, s.call, depth+1); !ok {
				return false, fmt.Sprintf("reached from %s (%s) without a preceding restore", core.SSAName(s.caller), p.Pos(s.call.Pos()))
			}
		}
		return true, ""
	}
	var fns []*ssa.Function
	for fn := range adders {
		fns = append(fns, fn)
	}
	sort.Slice(fns, func(i, j int) bool { return core.SSAName(fns[i]) < core.SSAName(fns[j]) })
	n := 0
	for _, fn := range fns {
		if flipper[fn] || restorer[fn] {
			continue // canonicalize compacts its own list; the restorer rebuilds it
		}
		name := core.SSAName(fn)
		c.Visit(name)
		sites := adders[fn]
		sort.Slice(sites, func(i, j int) bool { return sites[i].ins.Pos() < sites[j].ins.Pos() })
		for i, s := range sites {
			n++
			ok, why := restoredBefore(fn, s.ins, 0)
			c.Check(ok, fmt.Sprintf("%s / append #%d to %s happens on the positive form", name, i+1, s.f.Name()), s.ins.Pos(),
				"the class may already have been rewritten as a negated one by canonicalize (run by an earlier add): %s; the member is then added to the excluded set", why)
		}
	}
	if n == 0 {
		c.Anchor("a CharSet method appending to ranges/categories")
	}
}

// ---------------------------------------------------------------------------
// R-SENTINEL: "not found" is -1, and 0 is a position.
// ---------------------------------------------------------------------------

func RSentinel(c *core.Ctx) {
	c.Rule("R-SENTINEL", "for every function of the module that returns an int index with the constant -1 as its 'not found' answer (and something computed otherwise), no caller separates found from not-found by comparing the result with 0 through <=, >, < 1 or >= 1: index 0 is a valid position and would be treated as 'not found'", 10)
	p := c.P
	sentinel := map[*ssa.Function]bool{}
	for _, fn := range p.ModuleFuncs() {
		res := fn.Signature.Results()
		if res.Len() != 1 {
			continue
		}
		if bt, ok := res.At(0).Type().Underlying().(*types.Basic); !ok || bt.Kind() != types.Int {
			continue
		}
		neg, other, enum := false, false, false
		for _, b := range fn.Blocks {
			if r, ok := b.Instrs[len(b.Instrs)-1].(*ssa.Return); ok && len(r.Results) == 1 {
				if k, isC := core.IntConst(r.Results[0]); isC {
					if k == -1 {
						neg = true
					} else {
						enum = true // other constant answers: an enumeration (-1/0/1), not an index
					}
				} else {
					other = true
				}
			}
		}
		if neg && other && !enum {
			sentinel[fn] = true
		}
	}
	if len(sentinel) == 0 {
		c.Anchor("functions returning -1 as 'not found'")
		return
	}
	n := 0
	for _, fn := range p.ModuleFuncs() {
		name := core.SSAName(fn)
		cnt := 0
		for _, b := range fn.Blocks {
			for _, ins := range b.Instrs {
				call, ok := ins.(*ssa.Call)
				if !ok {
					continue
				}
				cal := call.Call.StaticCallee()
				if cal == nil {
					continue
				}
				if cal.Origin() != nil {
					cal = cal.Origin()
				}
				if !sentinel[cal] {
					continue
				}
				cnt++
				n++
				c.Visit(name)
				bad := ""
				for _, r := range core.Referrers(call) {
					bin, ok := r.(*ssa.BinOp)
					if !ok {
						continue
					}
					x, y, op := bin.X, bin.Y, bin.Op
					if y == ssa.Value(call) {
						x, y = y, x
						switch op {
						case token.LSS:
							op = token.GTR
						case token.GTR:
							op = token.LSS
						case token.LEQ:
							op = token.GEQ
						case token.GEQ:
							op = token.LEQ
						}
					}
					if x != ssa.Value(call) {
						continue
					}
					k, isC := core.IntConst(y)
					if !isC {
						continue
					}
					if (k == 0 && (op == token.LEQ || op == token.GTR)) || (k == 1 && (op == token.LSS || op == token.GEQ)) {
						bad = fmt.Sprintf("result %s %d at %s", op, k, p.Pos(bin.Pos()))
					}
				}
				c.Check(bad == "", fmt.Sprintf("%s / call #%d of %s tests its result against -1, not 0", name, cnt, core.SSAName(cal)), call.Pos(),
					"%s returns -1 for 'not found' and a position otherwise; the test `%s` also rejects position 0", core.SSAName(cal), bad)
			}
		}
	}
}

// R-SENTINELARG: the "-1 means unspecified" convention for parameters.
func RSentinelArg(c *core.Ctx) {
	c.Rule("R-SENTINELARG", "for every int parameter of a module function to which some call site passes the constant -1 ('unspecified'), the function separates the unspecified case with `< 0` / `== -1`, never with `<= 0`, `> 0`, `< 1`, `>= 1`: 0 is a position a caller may specify (FindNextMatch after a right-to-left match whose left edge is rune 0)", 3)
	p := c.P
	type pk struct {
		fn  *ssa.Function
		idx int
	}
	sentinel := map[pk]bool{}
	for _, fn := range p.ModuleFuncs() {
		for _, b := range fn.Blocks {
			for _, ins := range b.Instrs {
				call, ok := ins.(ssa.CallInstruction)
				if !ok {
					continue
				}
				cal := call.Common().StaticCallee()
				if cal == nil || !core.InModule(cal) {
					continue
				}
				for i, a := range call.Common().Args {
					if k, isC := core.IntConst(a); isC && k == -1 && i < len(cal.Params) {
						sentinel[pk{cal, i}] = true
					}
				}
			}
		}
	}
	n := 0
	var keys []pk
	for k := range sentinel {
		keys = append(keys, k)
	}
	sort.Slice(keys, func(i, j int) bool {
		if core.SSAName(keys[i].fn) != core.SSAName(keys[j].fn) {
			return core.SSAName(keys[i].fn) < core.SSAName(keys[j].fn)
		}
		return keys[i].idx < keys[j].idx
	})
	for _, k := range keys {
		prm := k.fn.Params[k.idx]
		name := core.SSAName(k.fn)
		bad := ""
		cmp := 0
		for _, r := range core.Referrers(prm) {
			bin, ok := r.(*ssa.BinOp)
			if !ok {
				continue
			}
			x, y, op := bin.X, bin.Y, bin.Op
			if y == ssa.Value(prm) {
				x, y = y, x
				switch op {
				case token.LSS:
					op = token.GTR
				case token.GTR:
					op = token.LSS
				case token.LEQ:
					op = token.GEQ
				case token.GEQ:
					op = token.LEQ
				}
			}
			if x != ssa.Value(prm) {
				continue
			}
			kk, isC := core.IntConst(y)
			if !isC {
				continue
			}
			cmp++
			if (kk == 0 && (op == token.LEQ || op == token.GTR)) || (kk == 1 && (op == token.LSS || op == token.GEQ)) {
				bad = fmt.Sprintf("%s %s %d at %s", prm.Name(), op, kk, p.Pos(bin.Pos()))
			}
		}
		if cmp == 0 {
			continue // the parameter is only passed on
		}
		n++
		c.Visit(name)
		if why, ok := sentinelArgExempt[name+"."+prm.Name()]; ok && bad != "" {
			c.OK(fmt.Sprintf("%s / parameter %s (callers pass -1 for 'unspecified') is tested against -1, not 0", name, prm.Name()), k.fn.Pos(), "exempt: %s", why)
			continue
		}
		c.Check(bad == "", fmt.Sprintf("%s / parameter %s (callers pass -1 for 'unspecified') is tested against -1, not 0", name, prm.Name()), k.fn.Pos(),
			"the test `%s` also treats an explicit 0 as unspecified", bad)
	}
	if n == 0 {
		c.Anchor("parameters that receive the constant -1 and are compared with a constant")
	}
}

// parameters whose comparison with 0 is deliberate, each with the reason
var sentinelArgExempt = map[string]string{
	"regexp2.(*Regexp).matchStringAt.startAt":         "explicit positions reach it only from the left-to-right raw-string filter (R-RTLFILTER checks that call is under !RightToLeft()); for a left-to-right search position 0 and 'unspecified' are the same start",
	"regexp2.(*pooledSliceBuffers).poolIndex.maxSize": "0 ('pooling disabled') is answered by the `maxSize == 0` return before this test; `maxSize > 0` then separates a real limit from -1 (unlimited)",
}
