package rules

import (
	"fmt"
	"go/ast"
	"go/constant"
	"go/token"
	"go/types"
	"sort"
	"strings"

	"regexlint/internal/core"
)

// ---------------------------------------------------------------------------
// Shared model of the bytecode contract, extracted from the current source.
// ---------------------------------------------------------------------------

type clauseLabel struct {
	op    int64 // base opcode
	back  bool
	back2 bool
	expr  ast.Expr
}

type clause struct {
	cc     *ast.CaseClause
	labels []clauseLabel
}

type opModel struct {
	c   *core.Ctx
	ok  bool
	syn *types.Package

	opName  map[int64]string // base opcodes (< Mask)
	opByNm  map[string]int64
	mask    int64
	back    int64
	back2   int64
	rtl, ci int64
	ntName  map[int64]string // NodeType constants (excluding Before/AfterChild)
	ntByNm  map[string]int64
	before  int64
	after   int64

	size       map[int64]int64 // opcodeSize
	sizeFn     *ast.FuncDecl
	backtracks map[int64]bool // opcodeBacktracks
	btFn       *ast.FuncDecl

	execFn   *ast.FuncDecl
	execSw   *ast.SwitchStmt
	clauses  []*clause
	hasDeflt bool

	emitFn *ast.FuncDecl // emitFragment
	emitSw *ast.SwitchStmt
	emits  []emitSite
}

type emitSite struct {
	call   *ast.CallExpr
	arity  int // 0,1,2 operands
	ops    []int64
	caseNT []int64 // node-type labels (with Before/After bits) of the enclosing emitFragment arm; nil outside
	fn     string
	rtlBit bool // some evaluated value of the opcode expression carries the Rtl bit
}

func constInScope(pk *types.Package, name string) (int64, bool) {
	c, ok := pk.Scope().Lookup(name).(*types.Const)
	if !ok {
		return 0, false
	}
	v, ok := constant.Int64Val(constant.ToInt(c.Val()))
	return v, ok
}

func buildOpModel(c *core.Ctx) *opModel {
	m := &opModel{c: c, opName: map[int64]string{}, opByNm: map[string]int64{}, ntName: map[int64]string{}, ntByNm: map[string]int64{},
		size: map[int64]int64{}, backtracks: map[int64]bool{}}
	p := c.P
	syn := p.Pkg("syntax")
	m.syn = syn.Types
	need := func(name string) int64 {
		v, ok := constInScope(syn.Types, name)
		if !ok {
			c.Anchor("syntax." + name)
		}
		return v
	}
	m.mask, m.back, m.back2, m.rtl, m.ci = need("Mask"), need("Back"), need("Back2"), need("Rtl"), need("Ci")
	m.before, m.after = need("BeforeChild"), need("AfterChild")
	instOp, _ := syn.Types.Scope().Lookup("InstOp").(*types.TypeName)
	nodeType, _ := syn.Types.Scope().Lookup("NodeType").(*types.TypeName)
	if instOp == nil || nodeType == nil {
		c.Anchor("syntax.InstOp / syntax.NodeType")
		return m
	}
	for _, name := range syn.Types.Scope().Names() {
		k, ok := syn.Types.Scope().Lookup(name).(*types.Const)
		if !ok {
			continue
		}
		v, ok := constant.Int64Val(constant.ToInt(k.Val()))
		if !ok {
			continue
		}
		switch {
		case types.Identical(k.Type(), instOp.Type()):
			if v >= 0 && v < m.mask {
				m.opName[v] = name
				m.opByNm[name] = v
			}
		case types.Identical(k.Type(), nodeType.Type()):
			if name != "BeforeChild" && name != "AfterChild" {
				// node KINDS are the Nt… constants; other NodeType-typed constants (named differences
				// between families, masks) are values, not kinds: they never name a value a kind already has
				if strings.HasPrefix(name, "Nt") {
					m.ntName[v] = name
				}
				m.ntByNm[name] = v
			}
		}
	}
	// opcodeSize / opcodeBacktracks
	m.sizeFn = m.switchTable("opcodeSize", func(vals []int64, ret ast.Expr) {
		if r, ok := core.ConstInt(syn.TypesInfo, ret); ok {
			for _, v := range vals {
				m.size[v] = r
			}
		}
	})
	m.btFn = m.switchTable("opcodeBacktracks", func(vals []int64, ret ast.Expr) {
		if tv, ok := syn.TypesInfo.Types[ret]; ok && tv.Value != nil && tv.Value.Kind() == constant.Bool && constant.BoolVal(tv.Value) {
			for _, v := range vals {
				m.backtracks[v] = true
			}
		}
	})
	m.buildInterpreter()
	m.buildEmits()
	m.ok = m.sizeFn != nil && m.btFn != nil && m.execSw != nil && m.emitSw != nil
	return m
}

// switchTable walks `switch op { case A, B: return K ... }` of a syntax function.
func (m *opModel) switchTable(fname string, each func(vals []int64, ret ast.Expr)) *ast.FuncDecl {
	p := m.c.P
	fn := p.LookupFunc("syntax", fname)
	fd, pk := p.DeclOf(fn)
	if fd == nil {
		m.c.Anchor("syntax." + fname)
		return nil
	}
	m.c.Visit(core.FuncName(fn))
	found := false
	ast.Inspect(fd.Body, func(n ast.Node) bool {
		sw, ok := n.(*ast.SwitchStmt)
		if !ok {
			return true
		}
		found = true
		for _, st := range sw.Body.List {
			cc := st.(*ast.CaseClause)
			var vals []int64
			for _, e := range cc.List {
				if v, ok := core.ConstInt(pk.TypesInfo, e); ok {
					vals = append(vals, v)
				}
			}
			for _, s := range cc.Body {
				if r, ok := s.(*ast.ReturnStmt); ok && len(r.Results) == 1 {
					each(vals, r.Results[0])
				}
			}
		}
		return false
	})
	if !found {
		m.c.Anchor("switch in syntax." + fname)
		return nil
	}
	return fd
}

func (m *opModel) buildInterpreter() {
	p := m.c.P
	fn := p.LookupFunc("", "executeDefault")
	fd, pk := p.DeclOf(fn)
	if fd == nil {
		m.c.Anchor("regexp2.executeDefault")
		return
	}
	m.c.Visit(core.FuncName(fn))
	m.execFn = fd
	opField := p.LookupField("", "Runner", "operator")
	if opField == nil {
		m.c.Anchor("regexp2.Runner.operator")
		return
	}
	ast.Inspect(fd.Body, func(n ast.Node) bool {
		sw, ok := n.(*ast.SwitchStmt)
		if !ok || sw.Tag == nil || m.execSw != nil {
			return true
		}
		if core.FieldOf(pk.TypesInfo, sw.Tag) != opField {
			return true
		}
		m.execSw = sw
		return false
	})
	if m.execSw == nil {
		m.c.Anchor("switch r.operator in executeDefault")
		return
	}
	for _, st := range m.execSw.Body.List {
		cc := st.(*ast.CaseClause)
		if cc.List == nil {
			m.hasDeflt = true
			continue
		}
		cl := &clause{cc: cc}
		for _, e := range cc.List {
			v, ok := core.ConstInt(pk.TypesInfo, e)
			if !ok {
				m.c.Unknown("executeDefault / non-constant case label "+types.ExprString(e), e.Pos(), "case label is not a constant")
				continue
			}
			cl.labels = append(cl.labels, clauseLabel{op: v & m.mask, back: v&m.back != 0, back2: v&m.back2 != 0, expr: e})
		}
		m.clauses = append(m.clauses, cl)
	}
}

func (m *opModel) opLabel(l clauseLabel) string {
	s := m.opName[l.op]
	if s == "" {
		s = fmt.Sprintf("op%d", l.op)
	}
	if l.back {
		s += "|Back"
	}
	if l.back2 {
		s += "|Back2"
	}
	return s
}

// ---------------------------------------------------------------- set-valued evaluation

// evalSet evaluates an integer expression to the finite set of values it can
// take, given sets for some objects / the `node.T` selector.
type setEnv struct {
	info   *types.Info
	objs   map[types.Object][]int64
	nodeT  []int64    // value set of <node>.T
	tField *types.Var // RegexNode.T
	scope  ast.Node   // where to look for single definitions of locals
}

func (e *setEnv) eval(x ast.Expr, depth int) ([]int64, bool) {
	if depth > 8 {
		return nil, false
	}
	x = ast.Unparen(x)
	if v, ok := core.ConstInt(e.info, x); ok {
		return []int64{v}, true
	}
	switch n := x.(type) {
	case *ast.Ident:
		obj := e.info.ObjectOf(n)
		if s, ok := e.objs[obj]; ok {
			return s, true
		}
		// single local definition `v := expr` inside scope
		var def ast.Expr
		cnt := 0
		ast.Inspect(e.scope, func(y ast.Node) bool {
			if as, ok := y.(*ast.AssignStmt); ok {
				for i, l := range as.Lhs {
					if id, ok := l.(*ast.Ident); ok && e.info.ObjectOf(id) == obj {
						cnt++
						if len(as.Lhs) == len(as.Rhs) && (as.Tok == token.DEFINE || as.Tok == token.ASSIGN) {
							def = as.Rhs[i]
						} else {
							cnt += 10
						}
					}
				}
			}
			return true
		})
		if cnt == 1 && def != nil {
			return e.eval(def, depth+1)
		}
		return nil, false
	case *ast.SelectorExpr:
		if core.FieldOf(e.info, n) == e.tField && e.tField != nil && e.nodeT != nil {
			return e.nodeT, true
		}
		return nil, false
	case *ast.CallExpr:
		// conversion T(x)
		if tv, ok := e.info.Types[n.Fun]; ok && tv.IsType() && len(n.Args) == 1 {
			return e.eval(n.Args[0], depth+1)
		}
		return nil, false
	case *ast.BinaryExpr:
		a, ok1 := e.eval(n.X, depth+1)
		b, ok2 := e.eval(n.Y, depth+1)
		if !ok1 || !ok2 {
			return nil, false
		}
		set := map[int64]bool{}
		for _, x := range a {
			for _, y := range b {
				switch n.Op {
				case token.OR:
					set[x|y] = true
				case token.AND:
					set[x&y] = true
				case token.ADD:
					set[x+y] = true
				case token.SUB:
					set[x-y] = true
				case token.AND_NOT:
					set[x&^y] = true
				default:
					return nil, false
				}
			}
		}
		var out []int64
		for v := range set {
			out = append(out, v)
		}
		sort.Slice(out, func(i, j int) bool { return out[i] < out[j] })
		return out, true
	}
	return nil, false
}

func (m *opModel) buildEmits() {
	p := m.c.P
	syn := p.Pkg("syntax")
	info := syn.TypesInfo
	emitFns := map[*types.Func]int{}
	for name, ar := range map[string]int{"writer.emit": 0, "writer.emit1": 1, "writer.emit2": 2} {
		fn := p.LookupFunc("syntax", name)
		if fn == nil {
			m.c.Anchor("syntax." + name)
			return
		}
		emitFns[fn] = ar
	}
	fragFn := p.LookupFunc("syntax", "writer.emitFragment")
	fragDecl, _ := p.DeclOf(fragFn)
	if fragDecl == nil {
		m.c.Anchor("syntax.writer.emitFragment")
		return
	}
	m.emitFn = fragDecl
	m.c.Visit(core.FuncName(fragFn))
	tField := p.LookupField("syntax", "RegexNode", "T")
	if tField == nil {
		m.c.Anchor("syntax.RegexNode.T")
		return
	}
	// the switch on the `nodetype` parameter
	var ntParam types.Object
	if len(fragDecl.Type.Params.List) > 0 && len(fragDecl.Type.Params.List[0].Names) > 0 {
		ntParam = info.Defs[fragDecl.Type.Params.List[0].Names[0]]
	}
	ast.Inspect(fragDecl.Body, func(n ast.Node) bool {
		if sw, ok := n.(*ast.SwitchStmt); ok && m.emitSw == nil && sw.Tag != nil {
			if id, ok := ast.Unparen(sw.Tag).(*ast.Ident); ok && info.ObjectOf(id) == ntParam {
				m.emitSw = sw
			}
		}
		return m.emitSw == nil
	})
	if m.emitSw == nil {
		m.c.Anchor("switch nodetype in emitFragment")
		return
	}
	// variables holding direction/case bits: any local of emitFragment assigned
	// only from 0, Rtl, Ci (|=) or a conversion of such a variable.
	bitVals := []int64{0, m.rtl, m.ci, m.rtl | m.ci}
	bitObjs := map[types.Object][]int64{}
	ast.Inspect(fragDecl.Body, func(n ast.Node) bool {
		if as, ok := n.(*ast.AssignStmt); ok && as.Tok == token.DEFINE && len(as.Lhs) == 1 {
			if id, ok := as.Lhs[0].(*ast.Ident); ok {
				// bits := InstOp(0)  /  ntBits := NodeType(bits)
				rhs := ast.Unparen(as.Rhs[0])
				if call, ok := rhs.(*ast.CallExpr); ok && len(call.Args) == 1 {
					if tv, ok := info.Types[call.Fun]; ok && tv.IsType() {
						if v, ok := core.ConstInt(info, call.Args[0]); ok && v == 0 {
							bitObjs[info.ObjectOf(id)] = bitVals
						} else if aid, ok := ast.Unparen(call.Args[0]).(*ast.Ident); ok {
							if _, isBits := bitObjs[info.ObjectOf(aid)]; isBits {
								bitObjs[info.ObjectOf(id)] = bitVals
							}
						}
					}
				}
			}
		}
		return true
	})
	// verify that each bits variable is only ever |= with Rtl / Ci
	for obj := range bitObjs {
		ast.Inspect(fragDecl.Body, func(n ast.Node) bool {
			if as, ok := n.(*ast.AssignStmt); ok && as.Tok != token.DEFINE {
				for i, l := range as.Lhs {
					if id, ok := l.(*ast.Ident); ok && info.ObjectOf(id) == obj {
						v, isC := core.ConstInt(info, as.Rhs[i])
						if as.Tok != token.OR_ASSIGN || !isC || (v != m.rtl && v != m.ci) {
							delete(bitObjs, obj)
						}
					}
				}
			}
			return true
		})
	}

	for _, fd := range p.FuncDecls(syn) {
		fname := core.DeclName(syn, fd)
		ast.Inspect(fd.Body, func(n ast.Node) bool {
			call, ok := n.(*ast.CallExpr)
			if !ok {
				return true
			}
			ar, isEmit := emitFns[core.Callee(info, call)]
			if !isEmit {
				return true
			}
			site := emitSite{call: call, arity: ar, fn: fname}
			env := &setEnv{info: info, objs: map[types.Object][]int64{}, tField: tField, scope: fd.Body}
			for o, v := range bitObjs {
				env.objs[o] = v
			}
			if fd == fragDecl {
				// enclosing arm of the nodetype switch
				for _, st := range m.emitSw.Body.List {
					cc := st.(*ast.CaseClause)
					if cc.Pos() <= call.Pos() && call.End() <= cc.End() && cc.List != nil {
						var vals, base []int64
						for _, e := range cc.List {
							if v, ok := core.ConstInt(info, e); ok {
								vals = append(vals, v)
								base = append(base, v&^(m.before|m.after))
							}
						}
						site.caseNT = vals
						env.objs[ntParam] = vals
						env.nodeT = base
						env.scope = cc
					}
				}
			}
			vals, ok := env.eval(call.Args[0], 0)
			if !ok {
				m.c.Unknown(fmt.Sprintf("%s / emit operand %s", fname, types.ExprString(call.Args[0])), call.Pos(),
					"cannot evaluate the opcode expression to a finite set")
				return true
			}
			seen := map[int64]bool{}
			for _, v := range vals {
				if v&m.rtl != 0 {
					site.rtlBit = true
				}
				if !seen[v&m.mask] {
					seen[v&m.mask] = true
					site.ops = append(site.ops, v&m.mask)
				}
				if extra := v &^ (m.mask | m.rtl | m.ci); extra != 0 || v < 0 {
					m.c.Bad(fmt.Sprintf("%s / emit operand %s", fname, types.ExprString(call.Args[0])), call.Pos(),
						"emitted opcode value %d carries bits outside Mask|Rtl|Ci", v)
				}
			}
			m.emits = append(m.emits, site)
			return true
		})
	}
}

func (m *opModel) opsString(ops []int64) string {
	var s []string
	for _, o := range ops {
		if n := m.opName[o]; n != "" {
			s = append(s, n)
		} else {
			s = append(s, fmt.Sprintf("op%d", o))
		}
	}
	return strings.Join(s, ",")
}

// ---------------------------------------------------------------------------
// R-OP1 … R-OP5
// ---------------------------------------------------------------------------

// ROp checks opcode / handler / table coherence.
func ROp(c *core.Ctx) {
	m := buildOpModel(c)
	c.Rule("R-OP1", "every opcode the writer can emit has a forward clause in executeDefault's switch, a size in opcodeSize equal to the emit helper's operand count + 1, and every handled opcode is sized", 90)
	if !m.ok {
		c.Anchor("bytecode model (opcodeSize, opcodeBacktracks, executeDefault switch, emitFragment switch)")
		return
	}
	forward := map[int64]*clause{}
	backCl := map[int64]*clause{}
	back2Cl := map[int64]*clause{}
	for _, cl := range m.clauses {
		for _, l := range cl.labels {
			switch {
			case l.back:
				backCl[l.op] = cl
			case l.back2:
				back2Cl[l.op] = cl
			default:
				forward[l.op] = cl
			}
			name := m.opName[l.op]
			c.Check(name != "", "executeDefault / label "+m.opLabel(l)+" names an opcode", l.expr.Pos(), "case label base value %d is a declared InstOp below Mask", l.op)
		}
	}
	for op, name := range m.opName {
		if forward[op] != nil {
			_, sized := m.size[op]
			c.Check(sized, "opcodeSize / handled opcode "+name, m.sizeFn.Pos(), "opcode %s has a forward clause in executeDefault and must have a size in opcodeSize", name)
		}
	}
	for _, s := range m.emits {
		for _, op := range s.ops {
			name := m.opName[op]
			key := fmt.Sprintf("%s / emit%s(%s) as %s", s.fn, arityName(s.arity), types.ExprString(s.call.Args[0]), name)
			if name == "" {
				c.Bad(key, s.call.Pos(), "emitted value %d is not a declared opcode", op)
				continue
			}
			if forward[op] == nil {
				c.Bad(key+" handler", s.call.Pos(), "writer can emit %s but executeDefault has no forward clause for it: every pattern using it ends in \"unknown state\"", name)
			} else {
				c.OK(key+" handler", s.call.Pos(), "forward clause present")
			}
			sz, ok := m.size[op]
			c.Check(ok && sz == int64(s.arity)+1, key+" size", s.call.Pos(), "emit helper writes %d ints, opcodeSize(%s)=%d", s.arity+1, name, sz)
		}
	}

	c.Rule("R-OP2", "inside every interpreter clause of opcode O, r.operand(i) has i <= size(O)-2 and r.advance(k) has k = size(O)-1", 85)
	p := c.P
	info := p.Pkg("").TypesInfo
	operandFn := p.LookupFunc("", "Runner.operand")
	advanceFn := p.LookupFunc("", "Runner.advance")
	if operandFn == nil || advanceFn == nil {
		c.Anchor("Runner.operand / Runner.advance")
		return
	}
	for _, cl := range m.clauses {
		for _, l := range cl.labels {
			sz, ok := m.size[l.op]
			if !ok {
				continue
			}
			for _, st := range cl.cc.Body {
				ast.Inspect(st, func(n ast.Node) bool {
					call, ok := n.(*ast.CallExpr)
					if !ok {
						return true
					}
					switch core.Callee(info, call) {
					case operandFn:
						i, isC := core.ConstInt(info, call.Args[0])
						key := fmt.Sprintf("executeDefault / %s operand(%s)", m.opLabel(l), types.ExprString(call.Args[0]))
						if !isC {
							c.Unknown(key, call.Pos(), "operand index is not constant")
						} else {
							c.Check(i >= 0 && i <= sz-2, key, call.Pos(), "operand index %d against instruction size %d", i, sz)
						}
					case advanceFn:
						k, isC := core.ConstInt(info, call.Args[0])
						key := fmt.Sprintf("executeDefault / %s advance(%s)", m.opLabel(l), types.ExprString(call.Args[0]))
						if !isC {
							c.Unknown(key, call.Pos(), "advance distance is not constant")
						} else {
							c.Check(k == sz-1, key, call.Pos(), "advance(%d) against instruction size %d (must skip exactly the operands)", k, sz)
						}
					}
					return true
				})
			}
		}
	}
	// advance itself must add i+1 and nothing else may write codepos except goTo/backtrack
	rOp3(c, m, forward, backCl, back2Cl)
	rOp4(c, m)
	rOp5(c, m)
}

func arityName(a int) string {
	if a == 0 {
		return ""
	}
	return fmt.Sprint(a)
}

// trackEvent is one backtracking-stack operation inside a clause.
type trackEvent struct {
	kind  string // "pop", "peek", "pushpos", "pushneg"
	n     int64
	pos   token.Pos
	onlyO int64 // >=0: guarded by r.operator == that opcode
}

type trackFns struct {
	pushPos map[*types.Func]int64
	pushNeg map[*types.Func]int64
	pop     *types.Func
	popN    *types.Func
	peek    *types.Func
	peekN   *types.Func
}

func lookupTrackFns(c *core.Ctx) *trackFns {
	p := c.P
	t := &trackFns{pushPos: map[*types.Func]int64{}, pushNeg: map[*types.Func]int64{}}
	get := func(n string) *types.Func {
		f := p.LookupFunc("", "Runner."+n)
		if f == nil {
			c.Anchor("regexp2.Runner." + n)
		}
		return f
	}
	for n, a := range map[string]int64{"trackPush": 0, "trackPush1": 1, "trackPush2": 2, "trackPush3": 3} {
		t.pushPos[get(n)] = a
	}
	for n, a := range map[string]int64{"trackPushNeg1": 1, "trackPushNeg2": 2} {
		t.pushNeg[get(n)] = a
	}
	t.pop, t.popN, t.peek, t.peekN = get("trackPop"), get("trackPopN"), get("trackPeek"), get("trackPeekN")
	// the declared arity of each push helper must be its number of int
	// parameters (so a new trackPush4 would have to be added here: any other
	// method of Runner whose name starts with trackPush is an unknown helper)
	rn, _ := p.Pkg("").Types.Scope().Lookup("Runner").(*types.TypeName)
	if rn != nil {
		ms := types.NewMethodSet(types.NewPointer(rn.Type()))
		for i := 0; i < ms.Len(); i++ {
			f := ms.At(i).Obj().(*types.Func)
			if strings.HasPrefix(f.Name(), "trackPush") {
				_, a := t.pushPos[f]
				_, b := t.pushNeg[f]
				if !a && !b {
					c.Unknown("Runner / unknown push helper "+f.Name(), f.Pos(), "a backtracking push helper the frame-shape rule does not know")
				} else {
					np := int64(f.Type().(*types.Signature).Params().Len())
					want := t.pushPos[f]
					if b {
						want = t.pushNeg[f]
					}
					c.Check(np == want, "Runner / push helper "+f.Name()+" data arity", f.Pos(), "helper takes %d data values, modelled as %d", np, want)
				}
			}
		}
	}
	return t
}

// clauseEvents enumerates the paths of a clause body and projects the call
// events onto backtracking-stack operations.
func clausePaths(c *core.Ctx, info *types.Info, cl *clause, t *trackFns, opField *types.Var, m *opModel) [][]trackEvent {
	pe := &pathEnum{info: info, opField: opField, mask: m.mask, limit: 4000, ok: true}
	sp := pe.paths(cl.cc.Body, -1)
	if !pe.ok {
		c.Unknown("executeDefault / clause "+m.opLabel(cl.labels[0])+" path enumeration", cl.cc.Pos(), "cannot enumerate paths: %s", pe.why)
		return nil
	}
	var out [][]trackEvent
	for _, p := range sp {
		var ev []trackEvent
		for _, e := range p.events {
			fn, call, only := e.fn, e.call, e.only
			if a, ok := t.pushPos[fn]; ok {
				ev = append(ev, trackEvent{"pushpos", a, call.Pos(), only})
			} else if a, ok := t.pushNeg[fn]; ok {
				ev = append(ev, trackEvent{"pushneg", a, call.Pos(), only})
			} else if fn == t.pop {
				ev = append(ev, trackEvent{"pop", 1, call.Pos(), only})
			} else if fn == t.popN || fn == t.peekN {
				k, isC := core.ConstInt(info, call.Args[0])
				if !isC {
					k = -1
				}
				kind := "pop"
				if fn == t.peekN {
					kind = "peek"
				}
				ev = append(ev, trackEvent{kind, k, call.Pos(), only})
			} else if fn == t.peek {
				ev = append(ev, trackEvent{"peek", 0, call.Pos(), only})
			}
		}
		out = append(out, ev)
	}
	return out
}

func conjuncts(e ast.Expr) []ast.Expr {
	e = ast.Unparen(e)
	if be, ok := e.(*ast.BinaryExpr); ok && be.Op == token.LAND {
		return append(conjuncts(be.X), conjuncts(be.Y)...)
	}
	return []ast.Expr{e}
}

func rOp3(c *core.Ctx, m *opModel, forward, backCl, back2Cl map[int64]*clause) {
	c.Rule("R-OP3", "per opcode: one data arity per frame kind (positive / negative code position); a |Back clause exists when a positive frame can be pushed, a |Back2 clause when a negative one can; on every path the Back/Back2 clause pops exactly the frame's data slots before pushing again and peeks only inside the popped frame; forward clauses pop nothing", 60)
	p := c.P
	info := p.Pkg("").TypesInfo
	t := lookupTrackFns(c)
	opField := p.LookupField("", "Runner", "operator")
	type arities struct{ pos, neg map[int64]token.Pos }
	byOp := map[int64]*arities{}
	get := func(op int64) *arities {
		if byOp[op] == nil {
			byOp[op] = &arities{map[int64]token.Pos{}, map[int64]token.Pos{}}
		}
		return byOp[op]
	}
	clausePathsCache := map[*clause][][]trackEvent{}
	for _, cl := range m.clauses {
		paths := clausePaths(c, info, cl, t, opField, m)
		clausePathsCache[cl] = paths
		for _, l := range cl.labels {
			for _, path := range paths {
				for _, ev := range path {
					if ev.onlyO >= 0 && ev.onlyO != l.op {
						continue
					}
					switch ev.kind {
					case "pushpos":
						get(l.op).pos[ev.n] = ev.pos
					case "pushneg":
						get(l.op).neg[ev.n] = ev.pos
					}
				}
			}
		}
	}
	var ops []int64
	for op := range m.opName {
		ops = append(ops, op)
	}
	sort.Slice(ops, func(i, j int) bool { return ops[i] < ops[j] })
	for _, op := range ops {
		name := m.opName[op]
		a := byOp[op]
		if a == nil {
			a = &arities{map[int64]token.Pos{}, map[int64]token.Pos{}}
		}
		if forward[op] == nil && backCl[op] == nil && back2Cl[op] == nil {
			continue
		}
		pos := m.execSw.Pos()
		if forward[op] != nil {
			pos = forward[op].cc.Pos()
		}
		c.Check(len(a.pos) <= 1, "executeDefault / "+name+" positive frame arity", pos, "positive frames pushed with data arities %v", keys(a.pos))
		c.Check(len(a.neg) <= 1, "executeDefault / "+name+" negative frame arity", pos, "negative frames pushed with data arities %v", keys(a.neg))
		if len(a.pos) > 0 {
			c.Check(backCl[op] != nil, "executeDefault / "+name+"|Back clause exists", pos, "%s pushes a positive frame, so backtrack() will dispatch %s|Back", name, name)
		}
		if len(a.neg) > 0 {
			c.Check(back2Cl[op] != nil, "executeDefault / "+name+"|Back2 clause exists", pos, "%s pushes a negative frame, so backtrack() will dispatch %s|Back2", name, name)
		}
		// opcodeBacktracks must be true for every opcode that pushes a frame,
		// except opcodes listed with a reason.
		if len(a.pos)+len(a.neg) > 0 && !m.backtracks[op] {
			if name == "Nullmark" {
				c.OK("opcodeBacktracks / Nullmark exception", pos, "Nullmark pushes one slot but is not counted; it is always emitted together with a Goto that is (checked by R-LIM4 under C13)")
			} else {
				c.Bad("opcodeBacktracks / "+name, pos, "%s pushes a backtracking frame but opcodeBacktracks(%s) is false, so TrackCount under-counts it", name, name)
			}
		}
	}
	// pop discipline
	for _, cl := range m.clauses {
		paths := clausePathsCache[cl]
		for _, l := range cl.labels {
			a := byOp[l.op]
			want := int64(-1)
			if l.back || l.back2 {
				if a != nil {
					src := a.pos
					if l.back2 {
						src = a.neg
					}
					if len(src) == 1 {
						want = keys(src)[0]
					}
				}
				if want < 0 {
					c.Note("dead or ambiguous clause %s: no single frame arity known", m.opLabel(l))
					continue
				}
			}
			bad := ""
			var badPos token.Pos
			for _, path := range paths {
				popped := int64(0)
				pushed := false
				for _, ev := range path {
					if ev.onlyO >= 0 && ev.onlyO != l.op {
						continue
					}
					switch ev.kind {
					case "pop":
						if ev.n < 0 {
							bad, badPos = "non-constant pop count", ev.pos
						}
						if pushed {
							bad, badPos = "pop after a push in the same clause", ev.pos
						}
						popped += ev.n
					case "peek":
						if !pushed && (ev.n < 0 || ev.n+1 > popped) {
							bad, badPos = fmt.Sprintf("trackPeek index %d outside the %d popped slots", ev.n, popped), ev.pos
						}
						if pushed {
							// peeking after a push reads the pushed frame's slots: not used today; conservative
							bad, badPos = "peek after push", ev.pos
						}
					case "pushpos", "pushneg":
						pushed = true
					}
				}
				exp := want
				if !l.back && !l.back2 {
					exp = 0
				}
				if bad == "" && popped != exp {
					bad = fmt.Sprintf("a path pops %d data slots, the frame has %d", popped, exp)
					badPos = cl.cc.Pos()
				}
				if bad != "" {
					break
				}
			}
			key := "executeDefault / " + m.opLabel(l) + " pop discipline"
			if bad != "" {
				c.Bad(key, badPos, "%s", bad)
			} else {
				c.OK(key, cl.cc.Pos(), "%d paths, frame data arity %d", len(paths), max(want, 0))
			}
		}
	}
}

func keys(m map[int64]token.Pos) []int64 {
	var k []int64
	for v := range m {
		k = append(k, v)
	}
	sort.Slice(k, func(i, j int) bool { return k[i] < k[j] })
	return k
}

func rOp4(c *core.Ctx, m *opModel) {
	c.Rule("R-OP4", "leaf NodeTypes the writer casts to opcodes are numerically the opcode of the same name; the One/Notone/Set families and the loop/lazy/atomic variants are laid out with the equal strides that the retyping arithmetic (makeRep, reduceSet, makeLoopAtomic, lazy->greedy, Branchcount+lazy) assumes", 30)
	syn := c.P.Pkg("syntax")
	info := syn.TypesInfo
	tField := c.P.LookupField("syntax", "RegexNode", "T")
	// (a) numeric identity for every emit site whose operand mentions node.T
	n := 0
	for _, s := range m.emits {
		usesT := false
		ast.Inspect(s.call.Args[0], func(x ast.Node) bool {
			if se, ok := x.(*ast.SelectorExpr); ok && core.FieldOf(info, se) == tField {
				usesT = true
			}
			return true
		})
		if !usesT {
			continue
		}
		for _, nt := range s.caseNT {
			ntn := m.ntName[nt]
			want := strings.TrimPrefix(ntn, "Nt")
			opn := m.opName[nt&m.mask]
			n++
			c.Check(ntn != "" && opn == want, fmt.Sprintf("%s / InstOp(node.T) for %s", s.fn, ntn), s.call.Pos(),
				"NodeType %s=%d is cast to an opcode; the opcode with that value is %q", ntn, nt, opn)
		}
	}
	if n == 0 {
		c.Anchor("InstOp(node.T|…) emit sites")
	}
	// (b) strides
	nt := func(name string) (int64, bool) { v, ok := m.ntByNm[name]; return v, ok }
	fam := []string{"One", "Notone", "Set"}
	for _, kind := range []string{"", "loop", "lazy", "loopatomic"} {
		base, ok := nt("Nt" + fam[0] + kind)
		if !ok {
			c.Anchor("syntax.Nt" + fam[0] + kind)
			continue
		}
		for i, f := range fam[1:] {
			v, ok := nt("Nt" + f + kind)
			c.Check(ok && v-base == int64(i+1), "NodeType layout / Nt"+f+kind+" - Nt"+fam[0]+kind, token.NoPos,
				"family stride: Nt%s%s=%d, Nt%s%s=%d (want +%d)", f, kind, v, fam[0], kind, base, i+1)
		}
	}
	for _, kind := range []string{"rep", "loop", "lazy", "loopatomic", ""} {
		base, ok := m.opByNm["One"+kind]
		if !ok {
			c.Anchor("syntax.One" + kind)
			continue
		}
		for i, f := range fam[1:] {
			v, ok := m.opByNm[f+kind]
			c.Check(ok && v-base == int64(i+1), "InstOp layout / "+f+kind+" - One"+kind, token.NoPos, "family stride: %s%s=%d, One%s=%d", f, kind, v, kind, base)
		}
	}
	// loop/lazy parity between NodeType and InstOp control opcodes
	ntLoop, ok1 := nt("NtLoop")
	ntLazy, ok2 := nt("NtLazyloop")
	if ok1 && ok2 {
		d := ntLazy - ntLoop
		c.Check(m.opByNm["Lazybranchcount"]-m.opByNm["Branchcount"] == d, "InstOp layout / Lazybranchcount - Branchcount == NtLazyloop - NtLoop", token.NoPos, "writer computes Branchcount+lazy with lazy = nodetype-(NtLoop|AfterChild)")
		c.Check(m.opByNm["Lazybranchmark"]-m.opByNm["Branchmark"] == d, "InstOp layout / Lazybranchmark - Branchmark == NtLazyloop - NtLoop", token.NoPos, "writer computes Branchmark+lazy")
	} else {
		c.Anchor("syntax.NtLoop / NtLazyloop")
	}
	// every constant retyping statement `x.T op= K` lands on declared kinds when applied to the family it is written for
	for _, fd := range c.P.FuncDecls(syn) {
		fname := core.DeclName(syn, fd)
		ast.Inspect(fd.Body, func(x ast.Node) bool {
			as, ok := x.(*ast.AssignStmt)
			if !ok || (as.Tok != token.ADD_ASSIGN && as.Tok != token.SUB_ASSIGN) || len(as.Lhs) != 1 {
				return true
			}
			if core.FieldOf(info, as.Lhs[0]) != tField {
				return true
			}
			k, isC := core.ConstInt(info, as.Rhs[0])
			key := fmt.Sprintf("%s / retype %s %s %s", fname, types.ExprString(as.Lhs[0]), as.Tok, types.ExprString(as.Rhs[0]))
			if !isC {
				// makeRep: n.T += (t - NtOne): t is a parameter; covered by the stride checks above
				c.OK(key, as.Pos(), "non-constant delta; validity follows from the family strides checked above")
				return true
			}
			if as.Tok == token.SUB_ASSIGN {
				k = -k
			}
			// source kinds: enclosing `switch x.T` case labels, else the operand named in the delta
			srcs := enclosingCaseValues(info, fd, as, tField)
			if srcs == nil {
				// derive from delta expression "A - B": source is B's family
				if be, ok := ast.Unparen(as.Rhs[0]).(*ast.BinaryExpr); ok && be.Op == token.SUB {
					if b, ok := core.ConstInt(info, be.Y); ok {
						if as.Tok == token.SUB_ASSIGN {
							b, _ = core.ConstInt(info, be.X)
						}
						srcs = []int64{b}
					}
				}
			}
			okAll := len(srcs) > 0
			detail := ""
			for _, s := range srcs {
				sn, dn := m.ntName[s], m.ntName[s+k]
				if sn == "" || dn == "" || family(sn) == "" || family(dn) == "" || (family(sn) != family(dn) && kindOf(sn) != kindOf(dn)) {
					okAll = false
				}
				detail += fmt.Sprintf("%s->%s ", sn, dn)
			}
			c.Check(okAll, key, as.Pos(), "retyping maps %s(each must land on a declared single-char kind, keeping either its family One/Notone/Set or its loop/lazy/atomic kind)", detail)
			return true
		})
	}
}

func kindOf(nt string) string {
	return strings.TrimPrefix(strings.TrimPrefix(nt, "Nt"), family(nt))
}

func family(nt string) string {
	s := strings.TrimPrefix(nt, "Nt")
	switch {
	case strings.HasPrefix(s, "Notone"):
		return "Notone"
	case strings.HasPrefix(s, "One"):
		return "One"
	case strings.HasPrefix(s, "Set"):
		return "Set"
	}
	return ""
}

// enclosingCaseValues returns the constant labels of the innermost case clause
// of a `switch <x>.T` that contains n.
func enclosingCaseValues(info *types.Info, fd *ast.FuncDecl, n ast.Node, tField *types.Var) []int64 {
	var res []int64
	ast.Inspect(fd.Body, func(x ast.Node) bool {
		sw, ok := x.(*ast.SwitchStmt)
		if !ok || sw.Tag == nil || core.FieldOf(info, sw.Tag) != tField {
			return true
		}
		for _, st := range sw.Body.List {
			cc := st.(*ast.CaseClause)
			if cc.Pos() <= n.Pos() && n.End() <= cc.End() && cc.List != nil {
				var vals []int64
				for _, e := range cc.List {
					if v, ok := core.ConstInt(info, e); ok {
						vals = append(vals, v)
					}
				}
				res = vals
			}
		}
		return true
	})
	return res
}

func rOp5(c *core.Ctx, m *opModel) {
	c.Rule("R-OP5", "the debug name tables indexed without a bounds test (codeStr[op&Mask], typeStr[n.T]) are longer than the largest opcode / NodeType", 2)
	syn := c.P.Pkg("syntax")
	tableLen := func(name string) (int, token.Pos, bool) {
		v, _ := c.P.LookupObj("syntax", name).(*types.Var)
		if v == nil {
			return 0, token.NoPos, false
		}
		for _, f := range syn.Syntax {
			for _, d := range f.Decls {
				gd, ok := d.(*ast.GenDecl)
				if !ok {
					continue
				}
				for _, sp := range gd.Specs {
					vs, ok := sp.(*ast.ValueSpec)
					if !ok {
						continue
					}
					for i, id := range vs.Names {
						if syn.TypesInfo.Defs[id] == v && i < len(vs.Values) {
							if cl, ok := vs.Values[i].(*ast.CompositeLit); ok {
								return len(cl.Elts), cl.Pos(), true
							}
						}
					}
				}
			}
		}
		return 0, token.NoPos, false
	}
	maxOp, maxNt := int64(0), int64(0)
	for v := range m.opName {
		maxOp = max(maxOp, v)
	}
	for v := range m.ntName {
		maxNt = max(maxNt, v)
	}
	if n, pos, ok := tableLen("codeStr"); ok {
		c.Check(int64(n) > maxOp, "syntax.codeStr / length", pos, "len(codeStr)=%d, largest opcode %d", n, maxOp)
	} else {
		c.Anchor("syntax.codeStr")
	}
	if n, pos, ok := tableLen("typeStr"); ok {
		c.Check(int64(n) > maxNt, "syntax.typeStr / length", pos, "len(typeStr)=%d, largest NodeType %d", n, maxNt)
	} else {
		c.Anchor("syntax.typeStr")
	}
}
