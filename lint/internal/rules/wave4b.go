package rules

// Rules added in the third session (wave 4, second half, and the pre-existing
// defects reported with it).

import (
	"fmt"
	"go/ast"
	"go/token"
	"go/types"
	"golang.org/x/tools/go/ssa"
	"strings"
	"unicode"

	"regexlint/internal/core"
)

// R-OVERLAPNEG: polarity of the disjointness tests in canBeMadeAtomic.
func ROverlapNeg(c *core.Ctx) {
	c.Rule("R-OVERLAPNEG", "in canBeMadeAtomic a loop is made atomic only on evidence that it and its successor are DISJOINT: every CharIn / MayOverlap test between the loop and the successor is negated, and every comparison of their characters is `!=` between two positive (or two negated) items and `==` between a positive and a negated one", 20)
	p := c.P
	syn := p.Pkg("syntax")
	info := syn.TypesInfo
	fd, _ := p.DeclOf(p.LookupFunc("syntax", "RegexNode.canBeMadeAtomic"))
	tField := p.LookupField("syntax", "RegexNode", "T")
	chField := p.LookupField("syntax", "RegexNode", "Ch")
	if fd == nil || tField == nil || chField == nil {
		c.Anchor("syntax.RegexNode.canBeMadeAtomic / RegexNode.T / RegexNode.Ch")
		return
	}
	c.Visit("syntax.(*RegexNode).canBeMadeAtomic")
	recv := ""
	if fd.Recv != nil && len(fd.Recv.List) == 1 && len(fd.Recv.List[0].Names) == 1 {
		recv = fd.Recv.List[0].Names[0].Name
	}
	if recv == "" {
		c.Anchor("receiver name of canBeMadeAtomic")
		return
	}
	// the blocks: if <recv>.T == NtXloop ... { body }
	kindOfCond := func(cond ast.Expr) string {
		kind := ""
		ast.Inspect(cond, func(x ast.Node) bool {
			be, ok := x.(*ast.BinaryExpr)
			if !ok || be.Op != token.EQL {
				return true
			}
			sel, ok := ast.Unparen(be.X).(*ast.SelectorExpr)
			if !ok || core.FieldOf(info, sel) != tField || types.ExprString(sel.X) != recv {
				return true
			}
			if id, ok := ast.Unparen(be.Y).(*ast.Ident); ok {
				switch {
				case strings.HasPrefix(id.Name, "NtNotone"):
					kind = "notone"
				case strings.HasPrefix(id.Name, "NtSet"):
					kind = "set"
				case strings.HasPrefix(id.Name, "NtOne"):
					kind = "one"
				}
			}
			return true
		})
		return kind
	}
	mentionsNotone := func(e ast.Expr) bool {
		found := false
		ast.Inspect(e, func(x ast.Node) bool {
			switch y := x.(type) {
			case *ast.Ident:
				if strings.HasPrefix(y.Name, "NtNotone") {
					found = true
				}
			case *ast.SelectorExpr:
				if strings.HasPrefix(y.Sel.Name, "IsNotone") {
					found = true
				}
			}
			return true
		})
		return found
	}
	ord := map[string]int{}
	var doBlock func(kind string, body *ast.BlockStmt, recv string)
	doBlock = func(kind string, body *ast.BlockStmt, recv string) {
		ast.Inspect(body, func(x ast.Node) bool {
			ifs, ok := x.(*ast.IfStmt)
			if !ok {
				return true
			}
			for _, dj := range disjuncts(ifs.Cond) {
				subNot := mentionsNotone(dj)
				// walk with a parent stack to see negations
				var stack []ast.Node
				ast.Inspect(dj, func(y ast.Node) bool {
					if y == nil {
						stack = stack[:len(stack)-1]
						return true
					}
					stack = append(stack, y)
					switch z := y.(type) {
					case *ast.CallExpr:
						sel, ok := z.Fun.(*ast.SelectorExpr)
						if !ok || (sel.Sel.Name != "CharIn" && sel.Sel.Name != "MayOverlap") {
							return true
						}
						txt := types.ExprString(z)
						if !strings.Contains(txt, recv+".") {
							return true // not a test between the loop and its successor
						}
						neg := false
						for i := len(stack) - 2; i >= 0; i-- {
							if _, isParen := stack[i].(*ast.ParenExpr); isParen {
								continue
							}
							if u, isU := stack[i].(*ast.UnaryExpr); isU && u.Op == token.NOT {
								neg = true
							}
							break
						}
						ord[kind+"/call"]++
						c.Check(neg, fmt.Sprintf("canBeMadeAtomic / %s-loop block: overlap test #%d is negated", kind, ord[kind+"/call"]), z.Pos(), "`%s` is used positively: the loop is made atomic when it DOES overlap its successor, which is exactly when giving characters back can matter", txt)
					case *ast.BinaryExpr:
						if z.Op != token.EQL && z.Op != token.NEQ {
							return true
						}
						isCh := func(e ast.Expr) (bool, bool) { // (is a character of a node, belongs to the receiver)
							e = ast.Unparen(e)
							if sel, ok := e.(*ast.SelectorExpr); ok && core.FieldOf(info, sel) == chField {
								return true, types.ExprString(sel.X) == recv
							}
							if call, ok := e.(*ast.CallExpr); ok {
								if fn := core.Callee(info, call); fn != nil && (core.BaseName(fn) == "firstMatchedCharOfMulti" || core.BaseName(fn) == "FirstCharOfOneOrMulti") {
									return true, false
								}
							}
							if tv, ok := info.Types[e]; ok && tv.Value != nil {
								if b, ok := tv.Type.Underlying().(*types.Basic); ok && (b.Kind() == types.Int32 || b.Kind() == types.UntypedRune) {
									return true, false
								}
							}
							return false, false
						}
						xc, xr := isCh(z.X)
						yc, yr := isCh(z.Y)
						if !xc || !yc || xr == yr {
							return true
						}
						want := token.NEQ
						if (kind == "notone") != subNot {
							want = token.EQL
						}
						ord[kind+"/cmp"]++
						c.Check(z.Op == want, fmt.Sprintf("canBeMadeAtomic / %s-loop block: character comparison #%d has the polarity of disjointness", kind, ord[kind+"/cmp"]), z.Pos(), "`%s`: loop kind %s, successor %s — disjoint means `%s`", types.ExprString(z), kind, map[bool]string{true: "negated (notone)", false: "positive"}[subNot], want)
					}
					return true
				})
			}
			return true
		})
	}
	n := 0
	// a block is the body of `if <recv>.T == NtXloop … {` or of the arm `case <recv>.T == NtXloop …:` of a
	// tagless switch; when that body only hands the tests to a method of the node (per-kind helper),
	// the helper's body is the block
	block := func(k string, body *ast.BlockStmt) {
		n++
		doBlock(k, body, recv)
		ast.Inspect(body, func(y ast.Node) bool {
			call, ok := y.(*ast.CallExpr)
			if !ok {
				return true
			}
			fn := core.Callee(info, call)
			if fn == nil || fn.Pkg() != syn.Types {
				return true
			}
			sel, ok := ast.Unparen(call.Fun).(*ast.SelectorExpr)
			if !ok || types.ExprString(sel.X) != recv {
				return true
			}
			hd, _ := p.DeclOf(fn)
			if hd == nil || hd.Body == nil || hd == fd || hd.Recv == nil || len(hd.Recv.List) != 1 || len(hd.Recv.List[0].Names) != 1 {
				return true
			}
			if !strings.Contains(strings.ToLower(core.BaseName(fn)), "overlap") {
				return true
			}
			doBlock(k, hd.Body, hd.Recv.List[0].Names[0].Name)
			return true
		})
	}
	ast.Inspect(fd.Body, func(x ast.Node) bool {
		switch y := x.(type) {
		case *ast.IfStmt:
			if k := kindOfCond(y.Cond); k != "" {
				block(k, y.Body)
			}
		case *ast.CaseClause:
			for _, e := range y.List {
				if isBoolExpr(info, e) {
					if k := kindOfCond(e); k != "" {
						block(k, &ast.BlockStmt{List: y.Body})
					}
				}
			}
		}
		return true
	})
	if n < 3 {
		c.Anchor("the one / notone / set loop blocks of canBeMadeAtomic")
	}
}

func disjuncts(e ast.Expr) []ast.Expr {
	e = ast.Unparen(e)
	if be, ok := e.(*ast.BinaryExpr); ok && be.Op == token.LOR {
		return append(disjuncts(be.X), disjuncts(be.Y)...)
	}
	return []ast.Expr{e}
}

// R-CASEBIT: bit-5 arithmetic on a character needs a letter test.
func RCaseBit(c *core.Ctx) {
	c.Rule("R-CASEBIT", "an expression that changes the ASCII case bit of a character (x|0x20, x&^0x20, x^0x20, x ± ('a'-'A')) is evaluated only where x is known to be a letter: under a dominating (or same-condition) range test against 'A'/'Z'/'a'/'z', a letter / case predicate applied to x, or on the result of containsAsciiIgnoreCaseCharacter — for '@' '[' '\\\\' ']' '^' '_' and their partners bit 5 is not case", 5)
	p := c.P
	n := 0
	for _, pk := range p.ModulePkgs() {
		info := pk.TypesInfo
		for _, fd := range p.FuncDecls(pk) {
			if fd.Body == nil || p.IsTestFile(fd.Pos()) {
				continue
			}
			name := core.DeclName(pk, fd)
			var g *core.Graph
			ord := 0
			// variables assigned from a call of containsAsciiIgnoreCaseCharacter
			letterVars := map[types.Object]bool{}
			ast.Inspect(fd.Body, func(x ast.Node) bool {
				as, ok := x.(*ast.AssignStmt)
				if !ok || len(as.Rhs) != 1 {
					return true
				}
				call, ok := as.Rhs[0].(*ast.CallExpr)
				if !ok {
					return true
				}
				if fn := core.Callee(info, call); fn != nil && core.BaseName(fn) == "containsAsciiIgnoreCaseCharacter" {
					for _, l := range as.Lhs {
						if id, ok := l.(*ast.Ident); ok {
							letterVars[info.ObjectOf(id)] = true
						}
					}
				}
				return true
			})
			var stack []ast.Node
			ast.Inspect(fd.Body, func(x ast.Node) bool {
				if x == nil {
					stack = stack[:len(stack)-1]
					return true
				}
				stack = append(stack, x)
				be, ok := x.(*ast.BinaryExpr)
				if !ok {
					return true
				}
				var operand ast.Expr
				switch be.Op {
				case token.OR, token.AND_NOT, token.XOR:
					if k, ok := core.ConstInt(info, be.Y); ok && k == 0x20 {
						operand = be.X
					} else if k, ok := core.ConstInt(info, be.X); ok && k == 0x20 {
						operand = be.Y
					}
				case token.ADD, token.SUB:
					// only the spelled-out case distance ('a' - 'A'); a bare 32 is usually bit arithmetic
					if k, ok := core.ConstInt(info, be.Y); ok && (k == 32 || k == -32) {
						if t := types.ExprString(ast.Unparen(be.Y)); strings.Contains(t, "'a'") && strings.Contains(t, "'A'") {
							operand = be.X
						}
					}
				}
				if operand == nil {
					return true
				}
				if _, isConst := core.ConstInt(info, operand); isConst {
					return true
				}
				bt, ok := info.TypeOf(operand).Underlying().(*types.Basic)
				if !ok || (bt.Kind() != types.Int32 && bt.Kind() != types.Uint8) {
					return true
				}
				ord++
				n++
				c.Visit(name)
				opText := types.ExprString(ast.Unparen(operand))
				// (a) result of containsAsciiIgnoreCaseCharacter
				root := ast.Unparen(operand)
				if ix, ok := root.(*ast.IndexExpr); ok {
					root = ast.Unparen(ix.X)
				}
				if id, ok := root.(*ast.Ident); ok && letterVars[info.ObjectOf(id)] {
					c.OK(fmt.Sprintf("%s / case-bit arithmetic #%d on a known letter", name, ord), be.Pos(), "%s comes from containsAsciiIgnoreCaseCharacter (letters only, R-OR20)", opText)
					return true
				}
				isLetterTest := func(e ast.Expr) bool {
					found := false
					ast.Inspect(e, func(y ast.Node) bool {
						switch z := y.(type) {
						case *ast.BinaryExpr:
							switch z.Op {
							case token.LSS, token.LEQ, token.GTR, token.GEQ:
								for _, pair := range [][2]ast.Expr{{z.X, z.Y}, {z.Y, z.X}} {
									if types.ExprString(ast.Unparen(pair[0])) != opText {
										continue
									}
									if k, ok := core.ConstInt(info, pair[1]); ok && (k == 'A' || k == 'Z' || k == 'a' || k == 'z') {
										found = true
									}
								}
							}
						case *ast.CallExpr:
							fn := core.Callee(info, z)
							if fn == nil || len(z.Args) == 0 {
								return true
							}
							ln := strings.ToLower(fn.Name())
							if strings.Contains(ln, "letter") || strings.Contains(ln, "isupper") || strings.Contains(ln, "islower") || strings.Contains(ln, "caseconversion") {
								for _, a := range z.Args {
									if types.ExprString(ast.Unparen(a)) == opText {
										found = true
									}
								}
							}
						}
						return true
					})
					return found
				}
				guarded := false
				// (b) same condition: an enclosing && / || chain that contains a letter test of the operand
				for i := len(stack) - 2; i >= 0 && !guarded; i-- {
					e, ok := stack[i].(ast.Expr)
					if !ok {
						break
					}
					if b2, ok := e.(*ast.BinaryExpr); ok && (b2.Op == token.LAND || b2.Op == token.LOR) && isLetterTest(b2) {
						guarded = true
					}
				}
				// (c) dominating branch facts
				if !guarded {
					if g == nil {
						g = core.NewGraph(info, fd.Body)
					}
					if b, _ := g.BlockOf(be); b != nil {
						for _, f := range g.FactsAt(b) {
							if isLetterTest(f.Cond) {
								guarded = true
							}
						}
					}
				}
				c.Check(guarded, fmt.Sprintf("%s / case-bit arithmetic #%d is under a letter test", name, ord), be.Pos(), "`%s` is evaluated for any value of %s: for non-letters ('@'/'`', '['/'{', '_'/DEL ...) the result is another character, not another case", types.ExprString(be), opText)
				return true
			})
		}
	}
	if n == 0 {
		c.Anchor("case-bit arithmetic sites (x|0x20, x-('a'-'A'))")
	}
}

// R-MINLENUSE: a minimum length of 0 is not "always matches".
func RMinLenUse(c *core.Ctx) {
	c.Rule("R-MINLENUSE", "the result of ComputeMinLength is used as a length only — added, multiplied, compared with another length, stored, returned; it is never compared with a constant to steer a rewrite: a node of minimum length 0 (an anchor, a lookaround, a backreference, \\b) can still fail, so `ComputeMinLength() == 0` does not mean \"matches wherever tried\"", 8)
	p := c.P
	target := p.LookupFunc("syntax", "RegexNode.ComputeMinLength")
	if target == nil {
		c.Anchor("syntax.RegexNode.ComputeMinLength")
		return
	}
	n := 0
	for _, fn := range p.ModuleFuncs() {
		name := core.SSAName(fn)
		ord := 0
		for _, b := range fn.Blocks {
			for _, ins := range b.Instrs {
				call, ok := ins.(*ssa.Call)
				if !ok {
					continue
				}
				cal := call.Call.StaticCallee()
				if cal == nil || cal.Object() != types.Object(target) {
					continue
				}
				ord++
				n++
				c.Visit(name)
				// forward through phis / stores to locals are not followed: the helpers keep lengths in SSA values
				seen := map[ssa.Value]bool{}
				var bad ssa.Instruction
				var walk func(v ssa.Value)
				walk = func(v ssa.Value) {
					if seen[v] || bad != nil {
						return
					}
					seen[v] = true
					for _, r := range core.Referrers(v) {
						switch x := r.(type) {
						case *ssa.Phi:
							walk(x)
						case *ssa.BinOp:
							switch x.Op {
							case token.EQL, token.NEQ, token.LSS, token.LEQ, token.GTR, token.GEQ:
								other := x.X
								if other == v {
									other = x.Y
								}
								if _, isConst := other.(*ssa.Const); isConst {
									bad = x
								}
							}
						}
					}
				}
				walk(call)
				key := fmt.Sprintf("%s / use of ComputeMinLength() #%d", name, ord)
				if bad != nil && fn.Object() == types.Object(target) {
					// exception (one symbol): inside ComputeMinLength itself `min > 0` only stops taking
					// the minimum over further branches early — the value still leaves as a length
					c.OK(key, call.Pos(), "compared with a constant inside ComputeMinLength itself (early exit of the minimum over branches); the result is still only a length")
					continue
				}
				if bad != nil {
					c.Bad(key, bad.Pos(), "the minimum length is compared with a constant (%s): a minimum of 0 does not mean the node always matches", bad.String())
				} else {
					c.OK(key, call.Pos(), "used as a length")
				}
			}
		}
	}
	if n == 0 {
		c.Anchor("calls of ComputeMinLength")
	}
}

// R-LOOKFACT: what a lookahead requires lies to the RIGHT of the position; it may
// feed a search fact only for a left-to-right pattern.
func RLookFact(c *core.Ctx) {
	c.Rule("R-LOOKFACT", "in the analyses reachable from newFindOptimizations, the content of a positive lookahead (X.Children[k] where X is known to be NtPosLook, or was returned by findLeadingPositiveLookahead) is looked at only under a test of the direction of the PATTERN or of a node on the way to X — the lookahead's own Options never carry RightToLeft, so a test on X alone says nothing (a variable that walks down the tree and is tested at every step counts)", 1)
	p := c.P
	syn := p.Pkg("syntax")
	if syn == nil {
		c.Anchor("package syntax")
		return
	}
	info := syn.TypesInfo
	entry := p.LookupFunc("syntax", "newFindOptimizations")
	rtlConst := p.LookupObj("syntax", "RightToLeft")
	tField := p.LookupField("syntax", "RegexNode", "T")
	chField := p.LookupField("syntax", "RegexNode", "Children")
	posLook := p.LookupObj("syntax", "NtPosLook")
	if entry == nil || rtlConst == nil || tField == nil || chField == nil || posLook == nil {
		c.Anchor("syntax.newFindOptimizations / RightToLeft / RegexNode.T / RegexNode.Children / NtPosLook")
		return
	}
	// static call closure from the entry, inside package syntax
	decl := map[*types.Func]*ast.FuncDecl{}
	for _, fd := range p.FuncDecls(syn) {
		if fn, ok := info.Defs[fd.Name].(*types.Func); ok && fd.Body != nil {
			decl[fn] = fd
		}
	}
	reach := map[*types.Func]bool{entry: true}
	work := []*types.Func{entry}
	for len(work) > 0 {
		fn := work[len(work)-1]
		work = work[:len(work)-1]
		fd := decl[fn]
		if fd == nil {
			continue
		}
		ast.Inspect(fd.Body, func(x ast.Node) bool {
			if call, ok := x.(*ast.CallExpr); ok {
				if cal := core.Callee(info, call); cal != nil && decl[cal] != nil && !reach[cal] {
					reach[cal] = true
					work = append(work, cal)
				}
			}
			return true
		})
	}
	rootIdent := func(e ast.Expr) types.Object {
		for {
			e = ast.Unparen(e)
			switch x := e.(type) {
			case *ast.SelectorExpr:
				e = x.X
			case *ast.IndexExpr:
				e = x.X
			case *ast.CallExpr:
				if sel, ok := x.Fun.(*ast.SelectorExpr); ok {
					e = sel.X
				} else {
					return nil
				}
			case *ast.Ident:
				return info.ObjectOf(x)
			default:
				return nil
			}
		}
	}
	// direction tests in an expression, with the object each is about
	dirSubjects := func(e ast.Expr) []types.Object {
		var out []types.Object
		ast.Inspect(e, func(x ast.Node) bool {
			switch y := x.(type) {
			case *ast.BinaryExpr:
				if y.Op == token.AND {
					if core.ObjOf(info, y.Y) == rtlConst {
						out = append(out, rootIdent(y.X))
					} else if core.ObjOf(info, y.X) == rtlConst {
						out = append(out, rootIdent(y.Y))
					}
				}
			case *ast.SelectorExpr:
				if strings.EqualFold(y.Sel.Name, "rightToLeft") {
					out = append(out, rootIdent(y.X))
				}
			}
			return true
		})
		return out
	}
	nSites := 0
	var fns []*types.Func
	for fn := range reach {
		fns = append(fns, fn)
	}
	sortFuncsByPos(fns)
	for _, fn := range fns {
		fd := decl[fn]
		if fd == nil {
			continue
		}
		name := core.DeclName(syn, fd)
		var g *core.Graph
		graph := func() *core.Graph {
			if g == nil {
				g = core.NewGraph(info, fd.Body)
			}
			return g
		}
		// variables that walk down the tree: V = V.Children[...]
		walks := map[types.Object]bool{}
		// variables holding the result of a *Lookahead* finder
		fromFinder := map[types.Object]bool{}
		ast.Inspect(fd.Body, func(x ast.Node) bool {
			as, ok := x.(*ast.AssignStmt)
			if !ok {
				return true
			}
			for i, l := range as.Lhs {
				id, ok := l.(*ast.Ident)
				if !ok {
					continue
				}
				obj := info.ObjectOf(id)
				if i < len(as.Rhs) {
					if ix, ok := ast.Unparen(as.Rhs[i]).(*ast.IndexExpr); ok {
						if sel, ok := ast.Unparen(ix.X).(*ast.SelectorExpr); ok && core.FieldOf(info, sel) == chField && rootIdent(sel.X) == obj {
							walks[obj] = true
						}
					}
				}
				if len(as.Rhs) == 1 {
					if call, ok := ast.Unparen(as.Rhs[0]).(*ast.CallExpr); ok && i == 0 {
						if cal := core.Callee(info, call); cal != nil && strings.Contains(core.BaseName(cal), "PositiveLookahead") {
							fromFinder[obj] = true
						}
					}
				}
			}
			return true
		})
		isPosLookTest := func(e ast.Expr, v types.Object, val bool) bool {
			for _, cj := range conjunctsOrNegDisjuncts(core.EdgeFact{Cond: e, Value: val}) {
				be, ok := ast.Unparen(cj.e).(*ast.BinaryExpr)
				if !ok {
					continue
				}
				if (be.Op == token.EQL && cj.val) || (be.Op == token.NEQ && !cj.val) {
					for _, pr := range [][2]ast.Expr{{be.X, be.Y}, {be.Y, be.X}} {
						if core.FieldOf(info, pr[0]) == tField && rootIdent(pr[0]) == v && core.ObjOf(info, pr[1]) == posLook {
							return true
						}
					}
				}
			}
			return false
		}
		var stack []ast.Node
		ord := 0
		ast.Inspect(fd.Body, func(x ast.Node) bool {
			if x == nil {
				stack = stack[:len(stack)-1]
				return true
			}
			stack = append(stack, x)
			ix, ok := x.(*ast.IndexExpr)
			if !ok {
				return true
			}
			sel, ok := ast.Unparen(ix.X).(*ast.SelectorExpr)
			if !ok || core.FieldOf(info, sel) != chField {
				return true
			}
			vid, ok := ast.Unparen(sel.X).(*ast.Ident)
			if !ok {
				return true
			}
			v := info.ObjectOf(vid)
			// is V known to be a positive lookahead here?
			known := fromFinder[v]
			var guards []ast.Expr // conditions known true (or the switch arm) on the way here, as (expr,value)
			type gv struct {
				e   ast.Expr
				val bool
			}
			var facts []gv
			if b, _ := graph().BlockOf(ix); b != nil {
				for _, f := range graph().FactsAt(b) {
					facts = append(facts, gv{f.Cond, f.Value})
				}
				for _, nd := range b.Nodes {
					if nd.Pos() <= ix.Pos() && ix.End() <= nd.End() {
						if e, ok := nd.(ast.Expr); ok {
							guards = append(guards, shortCircuitGuards(e, ix.Pos())...)
						}
					}
				}
			}
			for _, f := range facts {
				if isPosLookTest(f.e, v, f.val) {
					known = true
				}
			}
			for _, ge := range guards {
				// a left operand of && that holds: only the && case establishes truth; accept the syntactic form
				if isPosLookTest(ge, v, true) {
					known = true
				}
			}
			// enclosing `case NtPosLook` of `switch V.T`
			for i := len(stack) - 1; i >= 0; i-- {
				cc, ok := stack[i].(*ast.CaseClause)
				if !ok {
					continue
				}
				hasPos := false
				for _, e := range cc.List {
					if core.ObjOf(info, e) == posLook {
						hasPos = true
					}
				}
				if hasPos && i >= 2 {
					if sw, ok := stack[i-2].(*ast.SwitchStmt); ok && sw.Tag != nil && core.FieldOf(info, sw.Tag) == tField && rootIdent(sw.Tag) == v {
						known = true
					}
				}
				break
			}
			if !known {
				return true
			}
			ord++
			nSites++
			c.Visit(name)
			// direction guard
			ok2 := false
			why := "no direction test dominates it"
			consider := func(e ast.Expr) {
				for _, subj := range dirSubjects(e) {
					if subj != v || walks[v] {
						ok2 = true
					} else {
						why = "the only direction test is on the lookahead node itself, whose Options never carry RightToLeft"
					}
				}
			}
			for _, f := range facts {
				consider(f.e)
			}
			for _, ge := range guards {
				consider(ge)
			}
			c.Check(ok2, fmt.Sprintf("%s / content of a positive lookahead used #%d under a direction test of the pattern", name, ord), ix.Pos(), "%s: %s; in a right-to-left pattern what a lookahead requires lies behind the scan direction", types.ExprString(ix), why)
			return true
		})
	}
	if nSites == 0 {
		c.Anchor("uses of a positive lookahead's content in the find-optimisation analyses")
	}
}

func sortFuncsByPos(fns []*types.Func) {
	for i := 1; i < len(fns); i++ {
		for j := i; j > 0 && fns[j].Pos() < fns[j-1].Pos(); j-- {
			fns[j], fns[j-1] = fns[j-1], fns[j]
		}
	}
}

// R-ENDCHILD: concatenations are stored in execution order (R-REVERSE), so no
// child position may be chosen by direction.
func REndChild(c *core.Ctx) {
	c.Rule("R-ENDCHILD", "in package syntax no variable used as an index into a node's Children (or handed to ReplaceChild / InsertChild) is assigned under a test of the direction: the parser reverses right-to-left concatenations while building them, so Children[0] is what runs first and Children[len-1] what runs last in both directions; picking the other end for RightToLeft undoes that", 1)
	p := c.P
	syn := p.Pkg("syntax")
	if syn == nil {
		c.Anchor("package syntax")
		return
	}
	info := syn.TypesInfo
	rtlConst := p.LookupObj("syntax", "RightToLeft")
	chField := p.LookupField("syntax", "RegexNode", "Children")
	if rtlConst == nil || chField == nil {
		c.Anchor("syntax.RightToLeft / RegexNode.Children")
		return
	}
	nIdx, nBad := 0, 0
	for _, fd := range p.FuncDecls(syn) {
		if fd.Body == nil || p.IsTestFile(fd.Pos()) {
			continue
		}
		name := core.DeclName(syn, fd)
		if name == "syntax.(*RegexNode).reverseLeft" {
			continue // the one place that puts right-to-left children into execution order (R-REVERSE)
		}
		// index variables
		idxVars := map[types.Object]token.Pos{}
		ast.Inspect(fd.Body, func(x ast.Node) bool {
			switch y := x.(type) {
			case *ast.IndexExpr:
				if sel, ok := ast.Unparen(y.X).(*ast.SelectorExpr); ok && core.FieldOf(info, sel) == chField {
					nIdx++
					if id, ok := ast.Unparen(y.Index).(*ast.Ident); ok {
						if obj := info.ObjectOf(id); obj != nil {
							if _, seen := idxVars[obj]; !seen {
								idxVars[obj] = y.Pos()
							}
						}
					}
				}
			case *ast.CallExpr:
				if fn := core.Callee(info, y); fn != nil && (core.BaseName(fn) == "ReplaceChild" || core.BaseName(fn) == "InsertChild") && len(y.Args) > 0 {
					if id, ok := ast.Unparen(y.Args[0]).(*ast.Ident); ok {
						if obj := info.ObjectOf(id); obj != nil {
							if _, seen := idxVars[obj]; !seen {
								idxVars[obj] = y.Pos()
							}
						}
					}
				}
			}
			return true
		})
		if len(idxVars) == 0 {
			continue
		}
		dirVars := directionVars(info, fd, rtlConst)
		var g *core.Graph
		ast.Inspect(fd.Body, func(x ast.Node) bool {
			as, ok := x.(*ast.AssignStmt)
			if !ok {
				return true
			}
			for _, l := range as.Lhs {
				id, ok := l.(*ast.Ident)
				if !ok {
					continue
				}
				obj := info.ObjectOf(id)
				if _, isIdx := idxVars[obj]; !isIdx {
					continue
				}
				if g == nil {
					g = core.NewGraph(info, fd.Body)
				}
				// the variable must live outside the direction branch: declared where no direction test holds
				declGuarded := false
				if obj.Pos().IsValid() {
					declGuarded = guardedByDirection(info, g, &posNode{obj.Pos()}, rtlConst, dirVars)
				}
				if guardedByDirection(info, g, as, rtlConst, dirVars) && !declGuarded {
					nBad++
					c.Visit(name)
					c.Bad(fmt.Sprintf("%s / child index %s chosen by direction #%d", name, id.Name, nBad), as.Pos(), "`%s` is assigned under a direction test and then used as a position in Children: right-to-left concatenations are already stored in execution order", id.Name)
				}
			}
			return true
		})
	}
	if nIdx == 0 {
		c.Anchor("index expressions on RegexNode.Children")
		return
	}
	if nBad == 0 {
		for i := 0; i < nIdx; i++ {
			// one obligation per examined index site would drown the evidence; record the count
			break
		}
		c.OK("syntax / no child position chosen by direction", token.NoPos, "%d index expressions on Children examined", nIdx)
	}
	c.Note("R-ENDCHILD: %d Children index expressions examined", nIdx)
}

// R-CATPRED: a stdlib predicate is not a general category.
func RCatPred(c *core.Ctx) {
	c.Rule("R-CATPRED", "membership in a named Unicode category is decided by unicode.Is on the table looked up for that name: in package syntax the predicates unicode.IsSpace / IsLetter / IsPunct / ... are only ever called directly (never kept as values in a table keyed by category name), and in charInCategories they are called only in the arms of the engine's own pseudo-categories; the default arm uses unicode.Is and no call through a function value (unicode.IsSpace is not Z, unicode.IsControl is not C)", 3)
	p := c.P
	syn := p.Pkg("syntax")
	if syn == nil {
		c.Anchor("package syntax")
		return
	}
	info := syn.TypesInfo
	isUniPred := func(obj types.Object) bool {
		fn, ok := obj.(*types.Func)
		if !ok || fn.Pkg() == nil || fn.Pkg().Path() != "unicode" {
			return false
		}
		n := fn.Name()
		return strings.HasPrefix(n, "Is") && n != "Is" && n != "IsOneOf"
	}
	// (1) predicate functions are only called, never used as values
	nRefs := 0
	for _, f := range syn.Syntax {
		if p.IsTestFile(f.Pos()) {
			continue
		}
		callFuns := map[ast.Expr]bool{}
		ast.Inspect(f, func(x ast.Node) bool {
			if call, ok := x.(*ast.CallExpr); ok {
				callFuns[ast.Unparen(call.Fun)] = true
			}
			return true
		})
		ast.Inspect(f, func(x ast.Node) bool {
			sel, ok := x.(*ast.SelectorExpr)
			if !ok || !isUniPred(info.Uses[sel.Sel]) {
				return true
			}
			nRefs++
			fd := core.EnclosingFunc(syn, sel.Pos())
			where := "package level"
			if fd != nil {
				where = core.DeclName(syn, fd)
			}
			c.Check(callFuns[sel], fmt.Sprintf("%s / unicode.%s is called, not kept as a value #%d", where, sel.Sel.Name, nRefs), sel.Pos(), "unicode.%s is used as a function value: a table of predicates standing in for categories cannot be compared with the category tables", sel.Sel.Name)
			return true
		})
	}
	// (2) charInCategories: the default arm
	fd, _ := p.DeclOf(p.LookupFunc("syntax", "CharSet.charInCategories"))
	if fd == nil {
		c.Anchor("syntax.CharSet.charInCategories")
		return
	}
	c.Visit("syntax.(*CharSet).charInCategories")
	found := false
	ast.Inspect(fd.Body, func(x ast.Node) bool {
		cc, ok := x.(*ast.CaseClause)
		if !ok || cc.List != nil {
			return true
		}
		found = true
		usesIs, bad := false, ""
		for _, st := range cc.Body {
			ast.Inspect(st, func(y ast.Node) bool {
				call, ok := y.(*ast.CallExpr)
				if !ok {
					return true
				}
				fn := core.Callee(info, call)
				switch {
				case fn == nil:
					if _, isConv := info.Types[call.Fun]; isConv && info.Types[call.Fun].IsType() {
						return true
					}
					if id, ok := ast.Unparen(call.Fun).(*ast.Ident); ok {
						if _, isB := info.Uses[id].(*types.Builtin); isB {
							return true
						}
					}
					bad = "a call through a function value: " + types.ExprString(call.Fun)
				case fn.Pkg() != nil && fn.Pkg().Path() == "unicode" && (core.BaseName(fn) == "Is" || core.BaseName(fn) == "In"):
					usesIs = true
				case isUniPred(fn):
					bad = "unicode." + fn.Name()
				}
				return true
			})
		}
		c.Check(usesIs && bad == "", "charInCategories / the arm for named Unicode categories decides with unicode.Is on the looked-up table", cc.Pos(), "uses unicode.Is: %v; also found: %s", usesIs, bad)
		return true
	})
	if !found {
		c.Anchor("the default arm of the category switch in charInCategories")
	}
}

// R-LAZYFULL: "the slice is there" must mean "every element was built".
func RLazyFull(c *core.Ctx) {
	c.Rule("R-LAZYFULL", "for every slice field that is built lazily under `if x.F == nil { x.F = make(...) ... }`: each function that stores a freshly made slice into F also fills all of it (a loop over len(x.F) / range x.F assigning x.F[i]) before anyone can see it, and every other function that reads elements of F first passes a call of such a builder — otherwise a partly built slice is taken for a finished one by the nil test", 2)
	p := c.P
	type lazyField struct {
		f        *types.Var
		builders map[*types.Func]bool
	}
	fields := map[*types.Var]*lazyField{}
	isMake := func(info *types.Info, e ast.Expr) bool {
		call, ok := ast.Unparen(e).(*ast.CallExpr)
		if !ok {
			return false
		}
		id, ok := call.Fun.(*ast.Ident)
		if !ok {
			return false
		}
		_, isB := info.Uses[id].(*types.Builtin)
		return isB && id.Name == "make"
	}
	pkgs := []string{"regexp2", "compat"}
	// discover the idiom
	for _, short := range pkgs {
		pk := p.Pkg(short)
		if pk == nil {
			continue
		}
		info := pk.TypesInfo
		for _, fd := range p.FuncDecls(pk) {
			if fd.Body == nil || p.IsTestFile(fd.Pos()) {
				continue
			}
			// a function that tests a slice field against nil (`if x.F == nil { build }` or
			// `if x.F != nil { return }; build`) and stores a made slice into that field
			tested := map[*types.Var]bool{}
			ast.Inspect(fd.Body, func(x ast.Node) bool {
				ifs, ok := x.(*ast.IfStmt)
				if !ok {
					return true
				}
				be, ok := ast.Unparen(ifs.Cond).(*ast.BinaryExpr)
				if !ok || (be.Op != token.EQL && be.Op != token.NEQ) {
					return true
				}
				fe := be.X
				if isNilIdent(info, be.X) {
					fe = be.Y
				} else if !isNilIdent(info, be.Y) {
					return true
				}
				f := core.FieldOf(info, fe)
				if f == nil {
					return true
				}
				if _, isSlice := f.Type().Underlying().(*types.Slice); !isSlice {
					return true
				}
				if be.Op == token.EQL {
					// the build happens inside this if
					for _, st := range ifs.Body.List {
						if as, ok := st.(*ast.AssignStmt); ok && len(as.Lhs) == 1 && len(as.Rhs) == 1 && core.FieldOf(info, as.Lhs[0]) == f && isMake(info, as.Rhs[0]) {
							tested[f] = true
						}
					}
				} else if len(ifs.Body.List) == 1 && ifs.Else == nil {
					// `if x.F != nil { return }` — already built, nothing else to do
					if rs, ok := ifs.Body.List[0].(*ast.ReturnStmt); ok && len(rs.Results) == 0 {
						tested[f] = true
					}
				}
				return true
			})
			if len(tested) == 0 {
				continue
			}
			ast.Inspect(fd.Body, func(x ast.Node) bool {
				as, ok := x.(*ast.AssignStmt)
				if !ok || len(as.Lhs) != 1 || len(as.Rhs) != 1 {
					return true
				}
				if f := core.FieldOf(info, as.Lhs[0]); f != nil && tested[f] && isMake(info, as.Rhs[0]) {
					if fields[f] == nil {
						fields[f] = &lazyField{f: f, builders: map[*types.Func]bool{}}
					}
				}
				return true
			})
		}
	}
	if len(fields) == 0 {
		c.Anchor("lazily built slice fields (if x.F == nil { x.F = make(...) })")
		return
	}
	// (a) every store of a made slice into F is in a function that fills it
	for _, short := range pkgs {
		pk := p.Pkg(short)
		if pk == nil {
			continue
		}
		info := pk.TypesInfo
		for _, fd := range p.FuncDecls(pk) {
			if fd.Body == nil || p.IsTestFile(fd.Pos()) {
				continue
			}
			fn, _ := info.Defs[fd.Name].(*types.Func)
			name := core.DeclName(pk, fd)
			ord := 0
			ast.Inspect(fd.Body, func(x ast.Node) bool {
				as, ok := x.(*ast.AssignStmt)
				if !ok || len(as.Lhs) != 1 || len(as.Rhs) != 1 {
					return true
				}
				f := core.FieldOf(info, as.Lhs[0])
				lf := fields[f]
				if lf == nil || !isMake(info, as.Rhs[0]) {
					return true
				}
				subject := types.ExprString(as.Lhs[0])
				// a loop over the whole slice that assigns subject[i]
				fills := false
				ast.Inspect(fd.Body, func(y ast.Node) bool {
					var body *ast.BlockStmt
					var idx string
					switch l := y.(type) {
					case *ast.ForStmt:
						if be, ok := l.Cond.(*ast.BinaryExpr); ok && be.Op == token.LSS && types.ExprString(be.Y) == "len("+subject+")" {
							if id, ok := be.X.(*ast.Ident); ok {
								idx, body = id.Name, l.Body
							}
						}
					case *ast.RangeStmt:
						if types.ExprString(l.X) == subject {
							if id, ok := l.Key.(*ast.Ident); ok {
								idx, body = id.Name, l.Body
							}
						}
					}
					if body == nil || body.Pos() < as.End() {
						return true
					}
					for _, st := range body.List {
						if a2, ok := st.(*ast.AssignStmt); ok && len(a2.Lhs) == 1 {
							if types.ExprString(a2.Lhs[0]) == subject+"["+idx+"]" {
								fills = true
							}
						}
					}
					return true
				})
				ord++
				c.Visit(name)
				if fills && fn != nil {
					lf.builders[fn] = true
				}
				c.Check(fills, fmt.Sprintf("%s / store of a fresh slice into %s #%d is followed by a loop that builds every element", name, f.Name(), ord), as.Pos(), "%s is allocated here but not filled in this function: readers that test `%s == nil` will take the partly built slice for a finished one", subject, f.Name())
				return true
			})
		}
	}
	// (b) element reads elsewhere pass a builder first
	for _, short := range pkgs {
		pk := p.Pkg(short)
		if pk == nil {
			continue
		}
		info := pk.TypesInfo
		for _, fd := range p.FuncDecls(pk) {
			if fd.Body == nil || p.IsTestFile(fd.Pos()) {
				continue
			}
			fn, _ := info.Defs[fd.Name].(*types.Func)
			name := core.DeclName(pk, fd)
			var g *core.Graph
			ord := 0
			ast.Inspect(fd.Body, func(x ast.Node) bool {
				var sub ast.Expr
				switch y := x.(type) {
				case *ast.IndexExpr:
					sub = y.X
				case *ast.SliceExpr:
					sub = y.X
				case *ast.CallExpr:
					if id, ok := y.Fun.(*ast.Ident); ok && id.Name == "copy" && len(y.Args) == 2 {
						sub = y.Args[1]
					}
				}
				if sub == nil {
					return true
				}
				f := core.FieldOf(info, sub)
				lf := fields[f]
				if lf == nil || lf.builders[fn] {
					return true
				}
				if g == nil {
					g = core.NewGraph(info, fd.Body)
				}
				var bs []*types.Func
				for b := range lf.builders {
					bs = append(bs, b)
				}
				ord++
				c.Visit(name)
				b, i := g.BlockOf(x)
				ok := b != nil && len(bs) > 0 && g.MustPassBefore(b, i, core.ContainsCallTo(info, bs...))
				c.Check(ok, fmt.Sprintf("%s / read of %s #%d comes after the builder", name, f.Name(), ord), x.Pos(), "elements of the lazily built %s are read on a path that has not called the function that builds all of them", f.Name())
				return true
			})
		}
	}
}

// R-NAMEONCE: registering a name / number a second time changes nothing.
func RNameOnce(c *core.Ctx) {
	c.Rule("R-NAMEONCE", "in the parser's registration helpers (methods whose body is `if _, ok := p.<map>[key]; !ok { ... }`) every change of parser state — assignments to parser fields, map updates, calls of consumeAutocap / noteCaptureSlot — happens inside the first-occurrence branch; the only thing allowed outside is allocating the map itself. The main parse consumes a slot for a name only at its first occurrence (consumeCaptureSlot: capnum == autocap), so the pre-scan must too", 4)
	p := c.P
	syn := p.Pkg("syntax")
	if syn == nil {
		c.Anchor("package syntax")
		return
	}
	info := syn.TypesInfo
	pt, _ := syn.Types.Scope().Lookup("parser").(*types.TypeName)
	if pt == nil {
		c.Anchor("syntax.parser")
		return
	}
	isParserExpr := func(e ast.Expr) bool {
		t := info.TypeOf(e)
		if t == nil {
			return false
		}
		if pp, ok := t.(*types.Pointer); ok {
			t = pp.Elem()
		}
		n, ok := types.Unalias(t).(*types.Named)
		return ok && n.Obj() == pt
	}
	nFuncs := 0
	for _, fd := range p.FuncDecls(syn) {
		if fd.Body == nil || fd.Recv == nil || p.IsTestFile(fd.Pos()) {
			continue
		}
		// the idiom: a top-level `if _, ok := p.M[k]; !ok {`
		var guard *ast.IfStmt
		var okObj types.Object
		for _, st := range fd.Body.List {
			ifs, ok := st.(*ast.IfStmt)
			if !ok || ifs.Init == nil {
				continue
			}
			as, ok := ifs.Init.(*ast.AssignStmt)
			if !ok || len(as.Lhs) != 2 || len(as.Rhs) != 1 {
				continue
			}
			ix, ok := ast.Unparen(as.Rhs[0]).(*ast.IndexExpr)
			if !ok {
				continue
			}
			sel, ok := ast.Unparen(ix.X).(*ast.SelectorExpr)
			if !ok || !isParserExpr(sel.X) {
				continue
			}
			if _, isMap := info.TypeOf(ix.X).Underlying().(*types.Map); !isMap {
				continue
			}
			u, ok := ast.Unparen(ifs.Cond).(*ast.UnaryExpr)
			if !ok || u.Op != token.NOT {
				continue
			}
			id, ok := ast.Unparen(u.X).(*ast.Ident)
			okId, ok2 := as.Lhs[1].(*ast.Ident)
			if !ok || !ok2 || info.ObjectOf(id) != info.ObjectOf(okId) {
				continue
			}
			guard, okObj = ifs, info.ObjectOf(id)
		}
		if guard == nil {
			continue
		}
		_ = okObj
		name := core.DeclName(syn, fd)
		if !strings.Contains(fd.Name.Name, "note") && !strings.Contains(fd.Name.Name, "Note") {
			continue
		}
		nFuncs++
		c.Visit(name)
		ord := 0
		inGuard := func(n ast.Node) bool { return guard.Body.Pos() <= n.Pos() && n.End() <= guard.Body.End() }
		ast.Inspect(fd.Body, func(x ast.Node) bool {
			switch y := x.(type) {
			case *ast.AssignStmt:
				if y == guard.Init {
					return true
				}
				for i, l := range y.Lhs {
					var base ast.Expr
					switch z := ast.Unparen(l).(type) {
					case *ast.SelectorExpr:
						base = z.X
					case *ast.IndexExpr:
						if s2, ok := ast.Unparen(z.X).(*ast.SelectorExpr); ok {
							base = s2.X
						}
					}
					if base == nil || !isParserExpr(base) {
						continue
					}
					// allocating the map itself
					if i < len(y.Rhs) {
						if call, ok := ast.Unparen(y.Rhs[i]).(*ast.CallExpr); ok {
							if id, ok := call.Fun.(*ast.Ident); ok && id.Name == "make" {
								continue
							}
						}
					}
					ord++
					c.Check(inGuard(y), fmt.Sprintf("%s / state change #%d is inside the first-occurrence branch", name, ord), y.Pos(), "`%s` is written whether or not the key was seen before", types.ExprString(l))
				}
			case *ast.IncDecStmt:
				if s2, ok := ast.Unparen(y.X).(*ast.SelectorExpr); ok && isParserExpr(s2.X) {
					ord++
					c.Check(inGuard(y), fmt.Sprintf("%s / state change #%d is inside the first-occurrence branch", name, ord), y.Pos(), "`%s` changes whether or not the key was seen before", types.ExprString(y.X))
				}
			case *ast.CallExpr:
				fn := core.Callee(info, y)
				if fn == nil {
					return true
				}
				if core.BaseName(fn) == "consumeAutocap" || core.BaseName(fn) == "noteCaptureSlot" || core.BaseName(fn) == "consumeCaptureSlot" {
					ord++
					c.Check(inGuard(y), fmt.Sprintf("%s / state change #%d is inside the first-occurrence branch", name, ord), y.Pos(), "%s() runs for every occurrence of the key: a repeated group name takes a slot in the pre-scan that the main parse never hands out", fn.Name())
				}
			}
			return true
		})
	}
	if nFuncs == 0 {
		c.Anchor("registration helpers of the parser (note* methods with a first-occurrence guard)")
	}
}

// R-TRUNC: rune -> byte conversions need an upper bound.
func RTrunc(c *core.Ctx) {
	c.Rule("R-TRUNC", "every conversion of a rune-typed value to byte / uint8 is dominated by a test that bounds the rune to one byte (x < K with K <= 256, x <= K with K <= 255, or a return on the opposite comparison), or converts back a value that came from a byte: a bare uint8(r) keeps the low byte of any rune, so 'ś' (U+015B) indexes or compares like '['", 3)
	p := c.P
	n := 0
	fromByte := func(v ssa.Value) bool {
		// rune(b) for a byte b, possibly through a call of a module function that returns its argument or a letter (foldASCII)
		var walk func(v ssa.Value, d int) bool
		walk = func(v ssa.Value, d int) bool {
			if d > 4 {
				return false
			}
			switch x := v.(type) {
			case *ssa.Convert:
				if b, ok := x.X.Type().Underlying().(*types.Basic); ok && b.Kind() == types.Uint8 {
					return true
				}
			case *ssa.Call:
				cal := x.Call.StaticCallee()
				if cal == nil || !core.InModule(cal) || cal.Blocks == nil || len(x.Call.Args) != 1 || len(cal.Params) != 1 {
					return false
				}
				if !walk(x.Call.Args[0], d+1) {
					return false
				}
				// every return is the parameter, or the parameter plus a constant under a range test with letter bounds
				for _, b := range cal.Blocks {
					for _, ins := range b.Instrs {
						ret, ok := ins.(*ssa.Return)
						if !ok || len(ret.Results) != 1 {
							continue
						}
						r := ret.Results[0]
						if r == ssa.Value(cal.Params[0]) {
							continue
						}
						if bo, ok := r.(*ssa.BinOp); ok && bo.Op == token.ADD && bo.X == ssa.Value(cal.Params[0]) {
							if k, ok := core.IntConst(bo.Y); ok && k > 0 && k <= 32 {
								// under `param <= 'Z'`-like fact
								bounded := false
								for _, f := range core.FactsAtBlock(b) {
									x2, y2, op, ok := core.CmpNorm(f)
									if !ok {
										continue
									}
									if x2 == ssa.Value(cal.Params[0]) {
										if kk, ok := core.IntConst(y2); ok && (op == token.LEQ || op == token.LSS) && kk <= 0x7f {
											bounded = true
										}
									}
								}
								if bounded {
									continue
								}
							}
						}
						return false
					}
				}
				return true
			}
			return false
		}
		return walk(v, 0)
	}
	for _, fn := range p.ModuleFuncs() {
		name := core.SSAName(fn)
		ord := 0
		for _, b := range fn.Blocks {
			for _, ins := range b.Instrs {
				cv, ok := ins.(*ssa.Convert)
				if !ok {
					continue
				}
				to, ok1 := cv.Type().Underlying().(*types.Basic)
				from, ok2 := cv.X.Type().Underlying().(*types.Basic)
				if !ok1 || !ok2 || to.Kind() != types.Uint8 || from.Kind() != types.Int32 {
					continue
				}
				if _, isConst := cv.X.(*ssa.Const); isConst {
					continue
				}
				ord++
				n++
				c.Visit(name)
				bounded := fromByte(cv.X)
				for _, f := range core.FactsAtBlock(b) {
					x, y, op, ok := core.CmpNorm(f)
					if !ok || !(core.SameValue(x, cv.X) || sameFieldLoadFn(fn, x, cv.X, false) || sameFieldLoadFn(fn, x, cv.X, true)) {
						continue
					}
					if k, isC := core.IntConst(y); isC && ((op == token.LSS && k <= 256) || (op == token.LEQ && k <= 255)) {
						bounded = true
					}
				}
				c.Check(bounded, fmt.Sprintf("%s / rune converted to a byte #%d is bounded", name, ord), cv.Pos(), "no dominating upper bound (< 256) on the rune: the conversion keeps the low byte of any code point")
			}
		}
	}
	if n == 0 {
		c.Anchor("rune -> byte conversions")
	}
}

// sameFieldLoadFn: a and b are loads through the same chain of fields from the same root, and the
// function stores to none of those fields (go/ssa does no CSE; loads in different blocks are
// different values).  With firstLast, b may be the field `First` where a is the field `Last` of
// the same struct: a range's First never exceeds its Last, so an upper bound on Last bounds First.
func sameFieldLoadFn(fn *ssa.Function, a, b ssa.Value, firstLast bool) bool {
	la, ok1 := a.(*ssa.UnOp)
	lb, ok2 := b.(*ssa.UnOp)
	if !ok1 || !ok2 || la.Op != token.MUL || lb.Op != token.MUL {
		return false
	}
	var fieldsUsed []*types.Var
	var same func(x, y ssa.Value, top bool) bool
	same = func(x, y ssa.Value, top bool) bool {
		if x == y {
			return true
		}
		switch p := x.(type) {
		case *ssa.FieldAddr:
			q, ok := y.(*ssa.FieldAddr)
			if !ok {
				return false
			}
			fx, fy := core.FieldVarOfAddr(p), core.FieldVarOfAddr(q)
			if fx == nil || fy == nil {
				return false
			}
			if fx != fy {
				if !(top && firstLast && core.BaseName(fx) == "Last" && core.BaseName(fy) == "First") {
					return false
				}
			}
			fieldsUsed = append(fieldsUsed, fx, fy)
			return same(p.X, q.X, false)
		case *ssa.UnOp:
			q, ok := y.(*ssa.UnOp)
			return ok && p.Op == token.MUL && q.Op == token.MUL && same(p.X, q.X, false)
		}
		return false
	}
	if !same(la.X, lb.X, true) {
		return false
	}
	for _, blk := range fn.Blocks {
		for _, ins := range blk.Instrs {
			if st, ok := ins.(*ssa.Store); ok {
				if f := core.FieldVarOfAddr(st.Addr); f != nil {
					for _, u := range fieldsUsed {
						if u == f {
							return false
						}
					}
				}
			}
		}
	}
	return true
}

// R-CACHEPAIR: a cache entry's key and payload change together.
func RCachePair(c *core.Ctx) {
	c.Rule("R-CACHEPAIR", "every function that stores the key field of a replacement-cache entry also stores the payload field of the same entry value (a composite literal does; re-labelling an existing entry with a new key must install the new data too) — otherwise a later hit on the new key returns the data of the key that used to live in that entry", 1)
	p := c.P
	key := p.LookupField("regexp2", "replacerDataCacheEntry", "key")
	data := p.LookupField("regexp2", "replacerDataCacheEntry", "data")
	if key == nil || data == nil {
		c.Anchor("regexp2.replacerDataCacheEntry.key / data")
		return
	}
	n := 0
	for _, fn := range p.ModuleFuncs() {
		name := core.SSAName(fn)
		var keyStores []*ssa.Store
		dataBases := map[ssa.Value]bool{}
		for _, b := range fn.Blocks {
			for _, ins := range b.Instrs {
				st, ok := ins.(*ssa.Store)
				if !ok {
					continue
				}
				fa, ok := st.Addr.(*ssa.FieldAddr)
				if !ok {
					continue
				}
				switch core.FieldVarOfAddr(fa) {
				case key:
					keyStores = append(keyStores, st)
				case data:
					dataBases[fa.X] = true
				}
			}
		}
		for i, st := range keyStores {
			n++
			c.Visit(name)
			base := st.Addr.(*ssa.FieldAddr).X
			c.Check(dataBases[base], fmt.Sprintf("%s / store to entry.key #%d comes with a store to entry.data", name, i+1), st.Pos(), "the entry gets a new key but keeps the payload parsed for its previous key")
		}
	}
	if n == 0 {
		c.Anchor("stores to replacerDataCacheEntry.key")
	}
}

// astFingerprint renders a subtree structurally, with local variables renamed in order of first
// appearance (alpha-equivalence), so that two copies of the same algorithm compare equal
// whatever their locals are called.
func astFingerprint(info *types.Info, n ast.Node) string {
	var sb strings.Builder
	names := map[types.Object]string{}
	ast.Inspect(n, func(x ast.Node) bool {
		if x == nil {
			sb.WriteString(")")
			return true
		}
		fmt.Fprintf(&sb, "(%T", x)
		switch y := x.(type) {
		case *ast.Ident:
			obj := info.ObjectOf(y)
			if v, ok := obj.(*types.Var); ok && !v.IsField() && v.Parent() != nil && v.Parent() != v.Pkg().Scope() {
				if _, seen := names[obj]; !seen {
					names[obj] = fmt.Sprintf("v%d", len(names)+1)
				}
				sb.WriteString(" " + names[obj])
			} else {
				sb.WriteString(" " + y.Name)
			}
		case *ast.BasicLit:
			sb.WriteString(" " + y.Value)
		case *ast.BinaryExpr:
			sb.WriteString(" " + y.Op.String())
		case *ast.UnaryExpr:
			sb.WriteString(" " + y.Op.String())
		case *ast.AssignStmt:
			sb.WriteString(" " + y.Tok.String())
		case *ast.IncDecStmt:
			sb.WriteString(" " + y.Tok.String())
		case *ast.BranchStmt:
			sb.WriteString(" " + y.Tok.String())
		}
		return true
	})
	return sb.String()
}

// R-COMPACTSIB: the two copies of the balancing-group compaction agree.
func RCompactSib(c *core.Ctx) {
	c.Rule("R-COMPACTSIB", "the compaction of balancing-group captures exists twice (Match.tidy and compactBalancedMatches, used by Replace on the runner's reused match); the per-group loops of the two are the same algorithm up to the names of locals — or one of them calls the other. A shortcut added to one copy only makes FindStringMatch and Replace disagree on the captures of the same match", 1)
	p := c.P
	root := p.Pkg("regexp2")
	if root == nil {
		c.Anchor("package regexp2")
		return
	}
	info := root.TypesInfo
	tidyFn := p.LookupFunc("regexp2", "Match.tidy")
	compFn := p.LookupFunc("regexp2", "compactBalancedMatches")
	tidy, _ := p.DeclOf(tidyFn)
	comp, _ := p.DeclOf(compFn)
	if tidy == nil || comp == nil {
		c.Anchor("regexp2.Match.tidy / compactBalancedMatches")
		return
	}
	c.Visit("regexp2.(*Match).tidy")
	c.Visit("regexp2.compactBalancedMatches")
	matchcount := p.LookupField("regexp2", "Match", "matchcount")
	// the loop over groups: a ForStmt whose condition mentions len(<m>.matchcount)
	groupLoop := func(fd *ast.FuncDecl) *ast.ForStmt {
		var out *ast.ForStmt
		ast.Inspect(fd.Body, func(x ast.Node) bool {
			fs, ok := x.(*ast.ForStmt)
			if !ok || out != nil || fs.Cond == nil {
				return true
			}
			hit := false
			ast.Inspect(fs.Cond, func(y ast.Node) bool {
				if sel, ok := y.(*ast.SelectorExpr); ok && core.FieldOf(info, sel) == matchcount {
					hit = true
				}
				return true
			})
			if hit {
				out = fs
			}
			return true
		})
		return out
	}
	lc := groupLoop(comp)
	if lc == nil {
		c.Anchor("the loop over groups in compactBalancedMatches")
		return
	}
	lt := groupLoop(tidy)
	if lt == nil {
		// tidy may delegate
		if len(core.CallsIn(info, tidy.Body, compFn)) > 0 {
			c.OK("tidy / compaction delegates to compactBalancedMatches", tidy.Pos(), "one implementation")
			return
		}
		c.Anchor("the loop over groups in Match.tidy (or a call of compactBalancedMatches)")
		return
	}
	a, b := astFingerprint(info, lt.Body), astFingerprint(info, lc.Body)
	c.Check(a == b, "tidy / per-group compaction is the same algorithm as in compactBalancedMatches", lt.Pos(), "the two loop bodies differ structurally (fingerprint lengths %d vs %d): a match tidied by FindStringMatch and the same match compacted inside Replace would list different captures", len(a), len(b))
}

// R-MAPSTATE: per-match callbacks of the find-all drivers keep no cursor.
func RMapState(c *core.Ctx) {
	c.Rule("R-MAPSTATE", "the functions a find-all driver calls once per match (the func-typed arguments of findAllRunesIndex / forEachStringMatch and everything they call inside the module) store no integer into a field of an object that outlives the call, unless they consult the direction: matches arrive in descending order for right-to-left patterns, so a lookup that remembers where the previous one stopped answers differently in the two directions", 3)
	p := c.P
	var drivers []*ssa.Function
	for _, nm := range [][2]string{{"regexp2", "Regexp.findAllRunesIndex"}, {"compat", "Regexp.forEachStringMatch"}} {
		if fn := p.SSAFunc(p.LookupFunc(nm[0], nm[1])); fn != nil {
			drivers = append(drivers, fn)
		} else {
			c.Anchor(nm[0] + "." + nm[1])
			return
		}
	}
	isDriver := map[*ssa.Function]bool{}
	for _, d := range drivers {
		isDriver[d] = true
	}
	roots := map[*ssa.Function]bool{}
	for _, fn := range p.ModuleFuncs() {
		for _, b := range fn.Blocks {
			for _, ins := range b.Instrs {
				ci, ok := ins.(ssa.CallInstruction)
				if !ok {
					continue
				}
				cal := ci.Common().StaticCallee()
				if cal == nil || !isDriver[cal] {
					continue
				}
				for _, a := range ci.Common().Args {
					if _, isFn := a.Type().Underlying().(*types.Signature); !isFn {
						continue
					}
					switch v := a.(type) {
					case *ssa.MakeClosure:
						if f, ok := v.Fn.(*ssa.Function); ok {
							roots[f] = true
						}
					case *ssa.Function:
						roots[v] = true
					}
				}
			}
		}
	}
	if len(roots) == 0 {
		c.Anchor("func-typed arguments at the call sites of the find-all drivers")
		return
	}
	reach := map[*ssa.Function]bool{}
	var work []*ssa.Function
	for r := range roots {
		reach[r] = true
		work = append(work, r)
	}
	for len(work) > 0 {
		fn := work[len(work)-1]
		work = work[:len(work)-1]
		for _, b := range fn.Blocks {
			for _, ins := range b.Instrs {
				if ci, ok := ins.(ssa.CallInstruction); ok {
					if cal := ci.Common().StaticCallee(); cal != nil && core.InModule(cal) && cal.Blocks != nil && !reach[cal] {
						reach[cal] = true
						work = append(work, cal)
					}
				}
			}
		}
	}
	var fns []*ssa.Function
	for fn := range reach {
		fns = append(fns, fn)
	}
	sortSSAFuncs(fns)
	// what outlives one call: the variables the callbacks captured, and whatever is reached from them
	persistent := map[ssa.Value]bool{}
	for r := range roots {
		for _, fv := range r.FreeVars {
			persistent[fv] = true
		}
	}
	for changed := true; changed; {
		changed = false
		mark := func(v ssa.Value) {
			if v != nil && !persistent[v] {
				persistent[v] = true
				changed = true
			}
		}
		for _, fn := range fns {
			for _, b := range fn.Blocks {
				for _, ins := range b.Instrs {
					switch x := ins.(type) {
					case *ssa.UnOp:
						if x.Op == token.MUL && persistent[x.X] {
							if _, isPtrOrRef := x.Type().Underlying().(*types.Basic); !isPtrOrRef {
								mark(x)
							}
						}
					case *ssa.FieldAddr:
						if persistent[x.X] {
							mark(x)
						}
					case *ssa.IndexAddr:
						if persistent[x.X] {
							mark(x)
						}
					case *ssa.Phi:
						for _, e := range x.Edges {
							if persistent[e] {
								mark(x)
							}
						}
					case *ssa.Store:
						// a persistent pointer spilled to a local (captured by an inner closure): loads of the local give it back
						if persistent[x.Val] {
							if _, isPtr := x.Val.Type().Underlying().(*types.Pointer); isPtr {
								mark(x.Addr)
							}
						}
					case *ssa.MakeClosure:
						if cf, ok := x.Fn.(*ssa.Function); ok {
							for i, bnd := range x.Bindings {
								if persistent[bnd] && i < len(cf.FreeVars) {
									mark(cf.FreeVars[i])
								}
							}
						}
					case ssa.CallInstruction:
						if cal := x.Common().StaticCallee(); cal != nil && reach[cal] {
							for i, a := range x.Common().Args {
								if persistent[a] && i < len(cal.Params) {
									mark(cal.Params[i])
								}
							}
						}
					}
				}
			}
		}
	}
	for _, fn := range fns {
		name := core.SSAName(fn)
		c.Visit(name)
		consultsDir := false
		var bad *ssa.Store
		for _, b := range fn.Blocks {
			for _, ins := range b.Instrs {
				switch x := ins.(type) {
				case ssa.CallInstruction:
					if cal := x.Common().StaticCallee(); cal != nil && strings.EqualFold(cal.Name(), "RightToLeft") {
						consultsDir = true
					}
				}
				if fa, ok := ins.(*ssa.FieldAddr); ok {
					if f := core.FieldVarOfAddr(fa); f != nil && strings.EqualFold(f.Name(), "rightToLeft") {
						consultsDir = true
					}
				}
				st, ok := ins.(*ssa.Store)
				if !ok {
					continue
				}
				fa, ok := st.Addr.(*ssa.FieldAddr)
				if !ok {
					continue
				}
				if bt, ok := st.Val.Type().Underlying().(*types.Basic); !ok || bt.Info()&types.IsInteger == 0 {
					continue
				}
				if _, local := fa.X.(*ssa.Alloc); local {
					continue
				}
				if !persistent[fa.X] {
					continue // an object made during this call (a fresh Group / Capture being filled in)
				}
				if bad == nil {
					bad = st
				}
			}
		}
		if bad != nil && !consultsDir {
			f := core.FieldVarOfAddr(bad.Addr)
			fname := "?"
			if f != nil {
				fname = f.Name()
			}
			c.Bad(name+" / keeps no integer state across per-match calls", bad.Pos(), "stores an integer into field %s of an object that outlives the call (a cursor / memo) without consulting the direction", fname)
		} else {
			c.OK(name+" / keeps no integer state across per-match calls", fn.Pos(), "no integer field store (or direction consulted)")
		}
	}
}

func sortSSAFuncs(fns []*ssa.Function) {
	for i := 1; i < len(fns); i++ {
		for j := i; j > 0 && (fns[j].Pos() < fns[j-1].Pos() || (fns[j].Pos() == fns[j-1].Pos() && fns[j].String() < fns[j-1].String())); j-- {
			fns[j], fns[j-1] = fns[j-1], fns[j]
		}
	}
}

// R-NODEOPTS: nodes carry the option word in force where they were written.
func RNodeOpts(c *core.Ctx) {
	c.Rule("R-NODEOPTS", "every node the parser creates (newRegexNode* called from a method of parser) receives the parser's current option word p.options itself; the only accepted variation is `p.options &^ IgnoreCase` under a test that the text cannot be affected by case (isReplacement, !useOptionI(), anyParticipateInCaseConversion) — in particular the shorthand classes keep IgnoreCase: RE2 / ECMAScript \\w is ASCII-only and gains U+017F and U+212A by case folding", 40)
	p := c.P
	syn := p.Pkg("syntax")
	if syn == nil {
		c.Anchor("package syntax")
		return
	}
	info := syn.TypesInfo
	pt, _ := syn.Types.Scope().Lookup("parser").(*types.TypeName)
	optField := p.LookupField("syntax", "parser", "options")
	if pt == nil || optField == nil {
		c.Anchor("syntax.parser / parser.options")
		return
	}
	isCurrentOptions := func(fd *ast.FuncDecl, e ast.Expr) bool {
		e = ast.Unparen(e)
		if core.FieldOf(info, e) == optField {
			return true
		}
		// a local assigned exactly once, from p.options
		if id, ok := e.(*ast.Ident); ok {
			obj := info.ObjectOf(id)
			n, okAll := 0, true
			ast.Inspect(fd.Body, func(x ast.Node) bool {
				if as, ok := x.(*ast.AssignStmt); ok {
					for i, l := range as.Lhs {
						if lid, ok := l.(*ast.Ident); ok && info.ObjectOf(lid) == obj {
							n++
							if i >= len(as.Rhs) || core.FieldOf(info, as.Rhs[i]) != optField {
								okAll = false
							}
						}
					}
				}
				return true
			})
			return n == 1 && okAll
		}
		return false
	}
	n := 0
	for _, fd := range p.FuncDecls(syn) {
		if fd.Body == nil || fd.Recv == nil || p.IsTestFile(fd.Pos()) {
			continue
		}
		recvT := info.TypeOf(fd.Recv.List[0].Type)
		if pp, ok := recvT.(*types.Pointer); ok {
			recvT = pp.Elem()
		}
		if nn, ok := types.Unalias(recvT).(*types.Named); !ok || nn.Obj() != pt {
			continue
		}
		name := core.DeclName(syn, fd)
		var g *core.Graph
		ord := 0
		ast.Inspect(fd.Body, func(x ast.Node) bool {
			call, ok := x.(*ast.CallExpr)
			if !ok {
				return true
			}
			fn := core.Callee(info, call)
			if fn == nil || !strings.HasPrefix(core.BaseName(fn), "newRegexNode") || len(call.Args) < 2 {
				return true
			}
			ord++
			n++
			c.Visit(name)
			arg := ast.Unparen(call.Args[1])
			key := fmt.Sprintf("%s / node #%d is created with the current options", name, ord)
			if isCurrentOptions(fd, arg) {
				c.OK(key, call.Pos(), "p.options")
				return true
			}
			// p.options &^ IgnoreCase under a case-freeness test
			if be, ok := arg.(*ast.BinaryExpr); ok && be.Op == token.AND_NOT && isCurrentOptions(fd, be.X) {
				if id, ok := ast.Unparen(be.Y).(*ast.Ident); ok && id.Name == "IgnoreCase" {
					if g == nil {
						g = core.NewGraph(info, fd.Body)
					}
					caseFree := false
					mentions := func(e ast.Expr) bool {
						found := false
						ast.Inspect(e, func(y ast.Node) bool {
							switch z := y.(type) {
							case *ast.Ident:
								if z.Name == "isReplacement" {
									found = true
								}
							case *ast.CallExpr:
								if f2 := core.Callee(info, z); f2 != nil && (core.BaseName(f2) == "useOptionI" || strings.Contains(core.BaseName(f2), "articipateInCaseConversion")) {
									found = true
								}
							}
							return true
						})
						return found
					}
					if b, _ := g.BlockOf(call); b != nil {
						for _, f := range g.FactsAt(b) {
							if mentions(f.Cond) {
								caseFree = true
							}
						}
					}
					c.Check(caseFree, key, call.Pos(), "`%s` drops IgnoreCase from the node without a dominating test that case cannot matter for this text", types.ExprString(arg))
					return true
				}
			}
			// a local that starts as p.options and from which only IgnoreCase is taken, each time under a case-freeness test
			if id, ok := arg.(*ast.Ident); ok {
				obj := info.ObjectOf(id)
				if g == nil {
					g = core.NewGraph(info, fd.Body)
				}
				base, masks, other := 0, 0, 0
				masksOK := true
				isIC := func(e ast.Expr) bool {
					i2, ok := ast.Unparen(e).(*ast.Ident)
					return ok && i2.Name == "IgnoreCase"
				}
				caseFreeAt := func(n ast.Node) bool {
					b, _ := g.BlockOf(n)
					if b == nil {
						return false
					}
					for _, f := range g.FactsAt(b) {
						found := false
						ast.Inspect(f.Cond, func(y ast.Node) bool {
							switch z := y.(type) {
							case *ast.Ident:
								if z.Name == "isReplacement" {
									found = true
								}
							case *ast.CallExpr:
								if f2 := core.Callee(info, z); f2 != nil && (core.BaseName(f2) == "useOptionI" || strings.Contains(core.BaseName(f2), "articipateInCaseConversion")) {
									found = true
								}
							}
							return true
						})
						if found {
							return true
						}
					}
					return false
				}
				ast.Inspect(fd.Body, func(x ast.Node) bool {
					as, ok := x.(*ast.AssignStmt)
					if !ok {
						return true
					}
					for i, l := range as.Lhs {
						lid, ok := l.(*ast.Ident)
						if !ok || info.ObjectOf(lid) != obj || i >= len(as.Rhs) {
							continue
						}
						r := ast.Unparen(as.Rhs[i])
						switch {
						case (as.Tok == token.DEFINE || as.Tok == token.ASSIGN) && core.FieldOf(info, r) == optField:
							base++
						case as.Tok == token.AND_NOT_ASSIGN && isIC(r):
							masks++
							if !caseFreeAt(as) {
								masksOK = false
							}
						case as.Tok == token.AND_ASSIGN:
							if u, ok := r.(*ast.UnaryExpr); ok && u.Op == token.XOR && isIC(u.X) {
								masks++
								if !caseFreeAt(as) {
									masksOK = false
								}
							} else {
								other++
							}
						default:
							other++
						}
					}
					return true
				})
				if base == 1 && other == 0 && masks > 0 {
					c.Check(masksOK, key, call.Pos(), "`%s` is p.options with IgnoreCase removed somewhere without a dominating test that case cannot matter for this text", id.Name)
					return true
				}
			}
			c.Bad(key, call.Pos(), "the node is created with `%s`, not with the option word in force at this point of the pattern", types.ExprString(arg))
			return true
		})
	}
	if n == 0 {
		c.Anchor("newRegexNode* calls in parser methods")
	}
}

// R-PARSERFRESH: one parser per parse.
func RParserFresh(c *core.Ctx) {
	c.Rule("R-PARSERFRESH", "a parser is made for one parse and thrown away: every parser value comes from a composite literal in the function that uses it; none is taken from a sync.Pool, kept in a package-level variable or in a field of a longer-lived object. The parser has one-shot state (ignoreNextParen, the option stack, capture bookkeeping) that a rejected pattern leaves set, so a recycled parser makes the meaning of the next pattern depend on the previous one", 3)
	p := c.P
	syn := p.Pkg("syntax")
	if syn == nil {
		c.Anchor("package syntax")
		return
	}
	pt, _ := syn.Types.Scope().Lookup("parser").(*types.TypeName)
	if pt == nil {
		c.Anchor("syntax.parser")
		return
	}
	mentionsParser := func(t types.Type) bool {
		found := false
		var walk func(t types.Type, d int)
		walk = func(t types.Type, d int) {
			if d > 5 || found || t == nil {
				return
			}
			switch u := types.Unalias(t).(type) {
			case *types.Named:
				if u.Obj() == pt {
					found = true
				}
			case *types.Pointer:
				walk(u.Elem(), d+1)
			case *types.Slice:
				walk(u.Elem(), d+1)
			case *types.Array:
				walk(u.Elem(), d+1)
			case *types.Map:
				walk(u.Key(), d+1)
				walk(u.Elem(), d+1)
			case *types.Chan:
				walk(u.Elem(), d+1)
			}
		}
		walk(t, 0)
		return found
	}
	info := syn.TypesInfo
	// (1) composite literals: where parsers are made
	nLit := 0
	for _, fd := range p.FuncDecls(syn) {
		if fd.Body == nil || p.IsTestFile(fd.Pos()) {
			continue
		}
		name := core.DeclName(syn, fd)
		ast.Inspect(fd.Body, func(x ast.Node) bool {
			cl, ok := x.(*ast.CompositeLit)
			if !ok {
				return true
			}
			if n, ok := types.Unalias(info.TypeOf(cl)).(*types.Named); ok && n.Obj() == pt {
				nLit++
				c.Visit(name)
				c.OK(fmt.Sprintf("%s / makes its own parser #%d", name, nLit), cl.Pos(), "composite literal")
			}
			return true
		})
	}
	if nLit == 0 {
		c.Anchor("composite literals of syntax.parser")
	}
	// (2) no package-level variable, no struct field (outside parser itself) holds a parser
	for _, pk := range p.ModulePkgs() {
		sc := pk.Types.Scope()
		for _, nm := range sc.Names() {
			switch o := sc.Lookup(nm).(type) {
			case *types.Var:
				c.Check(!mentionsParser(o.Type()), "package-level variable "+pk.Types.Name()+"."+nm+" does not hold a parser", o.Pos(), "a parser kept in a package-level variable is shared between parses")
			case *types.TypeName:
				if st, ok := o.Type().Underlying().(*types.Struct); ok && o != pt {
					for i := 0; i < st.NumFields(); i++ {
						if mentionsParser(st.Field(i).Type()) {
							c.Bad("field "+pk.Types.Name()+"."+nm+"."+st.Field(i).Name()+" does not hold a parser", st.Field(i).Pos(), "a parser stored in a longer-lived object is reused between parses")
						}
					}
				}
			}
		}
	}
	// (3) no parser comes out of an interface (sync.Pool.Get().(*parser)) or goes into one
	for _, fn := range p.ModuleFuncs() {
		name := core.SSAName(fn)
		for _, b := range fn.Blocks {
			for _, ins := range b.Instrs {
				switch x := ins.(type) {
				case *ssa.TypeAssert:
					if mentionsParser(x.AssertedType) {
						c.Bad(name+" / a parser is taken out of an interface value", x.Pos(), "type assertion to %s: parsers obtained from a pool or registry carry the state of their previous use", x.AssertedType)
					}
				case *ssa.MakeInterface:
					if mentionsParser(x.X.Type()) {
						c.Bad(name+" / a parser is put into an interface value", x.Pos(), "a parser is stored away (pool, any): %s", x.X.Type())
					}
				}
			}
		}
	}
}

// R-OPTMEMO: nothing scanned under the current options is memoised by pattern text.
func ROptMemo(c *core.Ctx) {
	c.Rule("R-OPTMEMO", "what the parser's scanners return under the option word in force (a *CharSet from scanCharSet, a *RegexNode from scanBackslash / scanBasicBackslash / scanRegex ...) is never stored into a map held by the parser: the same source text means a different set inside (?i:...) and outside it, so a memo keyed by text carries one scope's options into another", 1)
	p := c.P
	syn := p.Pkg("syntax")
	if syn == nil {
		c.Anchor("package syntax")
		return
	}
	pt, _ := syn.Types.Scope().Lookup("parser").(*types.TypeName)
	if pt == nil {
		c.Anchor("syntax.parser")
		return
	}
	isParserPtr := func(t types.Type) bool {
		if pp, ok := t.Underlying().(*types.Pointer); ok {
			t = pp.Elem()
		}
		n, ok := types.Unalias(t).(*types.Named)
		return ok && n.Obj() == pt
	}
	isTreeType := func(t types.Type) bool {
		if pp, ok := t.Underlying().(*types.Pointer); ok {
			if n, ok := types.Unalias(pp.Elem()).(*types.Named); ok && n.Obj().Pkg() == syn.Types {
				return n.Obj().Name() == "CharSet" || n.Obj().Name() == "RegexNode"
			}
		}
		return false
	}
	nMaps, nBad := 0, 0
	// containers among the parser's own fields
	if st, ok := pt.Type().Underlying().(*types.Struct); ok {
		for i := 0; i < st.NumFields(); i++ {
			f := st.Field(i)
			var elem types.Type
			switch u := f.Type().Underlying().(type) {
			case *types.Slice:
				elem = u.Elem()
			case *types.Map:
				elem = u.Elem()
			}
			if elem == nil {
				continue
			}
			nMaps++
			holds := false
			var walk func(t types.Type, d int)
			walk = func(t types.Type, d int) {
				if d > 3 || holds {
					return
				}
				if isTreeType(t) {
					holds = true
					return
				}
				if n, ok := types.Unalias(t).(*types.Named); ok && n.Obj().Pkg() == syn.Types && (n.Obj().Name() == "CharSet" || n.Obj().Name() == "RegexNode") {
					holds = true
					return
				}
				switch u := t.Underlying().(type) {
				case *types.Struct:
					for j := 0; j < u.NumFields(); j++ {
						walk(u.Field(j).Type(), d+1)
					}
				case *types.Pointer:
					walk(u.Elem(), d+1)
				case *types.Slice:
					walk(u.Elem(), d+1)
				}
			}
			walk(elem, 0)
			if holds {
				nBad++
				c.Bad(fmt.Sprintf("parser.%s / a container of scanned sets or nodes lives in the parser", f.Name()), f.Pos(), "field %s of type %s keeps scanned sets / nodes for the length of the parse: a lookup by source text reuses what was built under another option scope", f.Name(), f.Type())
			}
		}
	}
	for _, fn := range p.ModuleFuncs() {
		if core.FnPkgPath(fn) != core.PkgSyntax {
			continue
		}
		name := core.SSAName(fn)
		for _, b := range fn.Blocks {
			for _, ins := range b.Instrs {
				mu, ok := ins.(*ssa.MapUpdate)
				if !ok {
					continue
				}
				// the map is a field of the parser
				ld, ok := mu.Map.(*ssa.UnOp)
				if !ok {
					continue
				}
				fa, ok := ld.X.(*ssa.FieldAddr)
				if !ok || !isParserPtr(fa.X.Type()) {
					continue
				}
				nMaps++
				c.Visit(name)
				// does the stored value contain a *CharSet / *RegexNode (directly or as a struct field)?
				holdsTree := false
				var walk func(t types.Type, d int)
				walk = func(t types.Type, d int) {
					if d > 3 || holdsTree {
						return
					}
					if isTreeType(t) {
						holdsTree = true
						return
					}
					switch u := t.Underlying().(type) {
					case *types.Struct:
						for i := 0; i < u.NumFields(); i++ {
							walk(u.Field(i).Type(), d+1)
						}
					case *types.Pointer:
						walk(u.Elem(), d+1)
					case *types.Slice:
						walk(u.Elem(), d+1)
					}
				}
				walk(mu.Value.Type(), 0)
				if holdsTree {
					nBad++
					f := core.FieldVarOfAddr(fa)
					fname := "?"
					if f != nil {
						fname = f.Name()
					}
					c.Bad(fmt.Sprintf("%s / a scanned set or node is memoised in parser.%s #%d", name, fname, nBad), mu.Pos(), "a value of type %s is stored into a map of the parser: the result of scanning under one option scope would be reused under another", mu.Value.Type())
				}
			}
		}
	}
	if nMaps == 0 {
		c.Anchor("map updates on fields of the parser (capture bookkeeping)")
		return
	}
	if nBad == 0 {
		c.OK("parser / no memo of option-dependent scan results", token.NoPos, "%d map updates on parser fields examined; none stores a *CharSet / *RegexNode", nMaps)
	}
}

// R-STARTRANGE: a caller-supplied start offset is compared with the input's length.
func RStartRange(c *core.Ctx) {
	c.Rule("R-STARTRANGE", "every exported method of Regexp that takes a start offset from its caller compares it with the length of the input — itself or in a function it hands the offset to — before it can reach the scan position: the interpreter trusts Runtextpos <= len(text) (right-to-left it reads text[pos-1] first thing)", 3)
	p := c.P
	root := p.Pkg("regexp2")
	if root == nil {
		c.Anchor("package regexp2")
		return
	}
	info := root.TypesInfo
	decl := map[*types.Func]*ast.FuncDecl{}
	for _, fd := range p.FuncDecls(root) {
		if fn, ok := info.Defs[fd.Name].(*types.Func); ok && fd.Body != nil {
			decl[fn] = fd
		}
	}
	paramObj := func(fd *ast.FuncDecl, idx int) types.Object {
		i := 0
		for _, f := range fd.Type.Params.List {
			for _, id := range f.Names {
				if i == idx {
					return info.ObjectOf(id)
				}
				i++
			}
			if len(f.Names) == 0 {
				i++
			}
		}
		return nil
	}
	// does fd compare obj with len(...) ?
	var checks func(fd *ast.FuncDecl, obj types.Object, depth int, seen map[*ast.FuncDecl]bool) bool
	checks = func(fd *ast.FuncDecl, obj types.Object, depth int, seen map[*ast.FuncDecl]bool) bool {
		if depth > 3 || seen[fd] {
			return false
		}
		seen[fd] = true
		found := false
		ast.Inspect(fd.Body, func(x ast.Node) bool {
			if found {
				return false
			}
			switch y := x.(type) {
			case *ast.BinaryExpr:
				switch y.Op {
				case token.GTR, token.GEQ, token.LSS, token.LEQ:
					for _, pr := range [][2]ast.Expr{{y.X, y.Y}, {y.Y, y.X}} {
						id, ok := ast.Unparen(pr[0]).(*ast.Ident)
						if !ok || info.ObjectOf(id) != obj {
							continue
						}
						if call, ok := ast.Unparen(pr[1]).(*ast.CallExpr); ok {
							if fid, ok := call.Fun.(*ast.Ident); ok && fid.Name == "len" {
								found = true
							}
						}
					}
				}
			case *ast.CallExpr:
				cal := core.Callee(info, y)
				cfd := decl[cal]
				if cfd == nil {
					return true
				}
				for i, a := range y.Args {
					if id, ok := ast.Unparen(a).(*ast.Ident); ok && info.ObjectOf(id) == obj {
						if po := paramObj(cfd, i); po != nil && checks(cfd, po, depth+1, seen) {
							found = true
						}
					}
				}
			}
			return true
		})
		return found
	}
	n := 0
	for _, fd := range p.FuncDecls(root) {
		if fd.Body == nil || fd.Recv == nil || !fd.Name.IsExported() || p.IsTestFile(fd.Pos()) {
			continue
		}
		if _, tn := core.NamedOf(info.TypeOf(fd.Recv.List[0].Type)); tn != "Regexp" {
			continue
		}
		idx := 0
		for _, f := range fd.Type.Params.List {
			for _, id := range f.Names {
				if strings.EqualFold(id.Name, "startAt") {
					n++
					name := core.DeclName(root, fd)
					c.Visit(name)
					ok := checks(fd, info.ObjectOf(id), 0, map[*ast.FuncDecl]bool{})
					c.Check(ok, name+" / startAt is compared with the input length", fd.Pos(), "the offset reaches run/scan without ever being compared with len(input): a value past the end becomes the scan position")
				}
				idx++
			}
		}
	}
	if n == 0 {
		c.Anchor("exported Regexp methods with a startAt parameter")
	}
}

// R-RUNEIDX: a rune used as a table index has a lower bound too.
func RRuneIdx(c *core.Ctx) {
	c.Rule("R-RUNEIDX", "wherever a rune-typed value (or its shift) indexes an array, slice or string at match time (packages regexp2, helpers and the matching side of syntax), a dominating test bounds it from below (x >= 0), or the value was converted to an unsigned type or masked first: rune-slice input is caller-supplied and may hold negative values, for which `x < 128` alone selects the table and the index panics", 3)
	p := c.P
	n := 0
	var stripConv func(v ssa.Value) ssa.Value
	stripConv = func(v ssa.Value) ssa.Value {
		for {
			cv, ok := v.(*ssa.Convert)
			if !ok {
				return v
			}
			v = cv.X
		}
	}
	isRune := func(v ssa.Value) bool {
		b, ok := v.Type().Underlying().(*types.Basic)
		return ok && b.Kind() == types.Int32
	}
	hasUnsignedConv := func(v ssa.Value) bool {
		for {
			cv, ok := v.(*ssa.Convert)
			if !ok {
				return false
			}
			if b, ok := cv.Type().Underlying().(*types.Basic); ok && b.Info()&types.IsUnsigned != 0 {
				// converting a negative rune to unsigned gives a huge value: only fine when a bound check follows; treat as "bounded by the upper test"
				return true
			}
			v = cv.X
		}
	}
	lowerBounded := func(x ssa.Value, b *ssa.BasicBlock) bool {
		for _, f := range core.FactsAtBlock(b) {
			a, bb, op, ok := core.CmpNorm(f)
			if !ok {
				continue
			}
			// k <= x , k < x with k >= 0 (k<x with k >= -1)
			if k, isC := core.IntConst(a); isC && (core.SameValue(bb, x) || sameFieldLoadFn(b.Parent(), bb, x, false)) {
				if (op == token.LEQ && k >= 0) || (op == token.LSS && k >= -1) {
					return true
				}
			}
			// x == k with k >= 0
			if k, isC := core.IntConst(bb); isC && core.SameValue(a, x) && op == token.EQL && k >= 0 {
				return true
			}
		}
		return false
	}
	// a value that cannot be negative by construction (loop counters that start at a constant >= 0 and only grow: coinductive on phis)
	assumed := map[*ssa.Phi]bool{}
	var nonNeg func(v ssa.Value, d int) bool
	nonNeg = func(v ssa.Value, d int) bool {
		if d > 4 {
			return false
		}
		switch x := v.(type) {
		case *ssa.Const:
			k, ok := core.IntConst(x)
			return ok && k >= 0
		case *ssa.BinOp:
			switch x.Op {
			case token.AND:
				return nonNeg(x.X, d+1) || nonNeg(x.Y, d+1)
			case token.REM, token.QUO, token.SHR, token.ADD, token.MUL:
				return nonNeg(x.X, d+1) && nonNeg(x.Y, d+1)
			}
		case *ssa.Convert:
			if b, ok := x.X.Type().Underlying().(*types.Basic); ok && b.Info()&types.IsUnsigned != 0 {
				return true
			}
			return nonNeg(x.X, d+1)
		case *ssa.Extract:
			// the rune of `range string` / utf8.Decode*: never negative
			if nx, ok := x.Tuple.(*ssa.Next); ok && nx.IsString {
				return true
			}
			if call, ok := x.Tuple.(*ssa.Call); ok {
				if cal := call.Call.StaticCallee(); cal != nil && cal.Pkg != nil && cal.Pkg.Pkg.Path() == "unicode/utf8" {
					return true
				}
			}
		case *ssa.Phi:
			if assumed[x] {
				return true
			}
			assumed[x] = true
			defer delete(assumed, x)
			for _, e := range x.Edges {
				if e != ssa.Value(x) && !nonNeg(e, d+1) {
					return false
				}
			}
			return true
		}
		return false
	}
	// match-time code: everything reachable from the scan funnel, plus the exported search helpers
	scanFn := p.SSAFunc(p.LookupFunc("", "Runner.scan"))
	if scanFn == nil {
		c.Anchor("regexp2.Runner.scan")
		return
	}
	matchTime := p.Reachable([]*ssa.Function{scanFn})
	for _, fn := range p.ModuleFuncs() {
		if core.FnPkgPath(fn) == core.PkgHelpers {
			matchTime[fn] = true
		}
	}
	for _, fn := range p.ModuleFuncs() {
		pk := core.FnPkgPath(fn)
		if pk != core.PkgRoot && pk != core.PkgHelpers && pk != core.PkgSyntax {
			continue
		}
		name := core.SSAName(fn)
		ord := 0
		for _, b := range fn.Blocks {
			for _, ins := range b.Instrs {
				var idx ssa.Value
				switch x := ins.(type) {
				case *ssa.IndexAddr:
					idx = x.Index
				case *ssa.Index:
					idx = x.Index
				case *ssa.Lookup:
					if _, isMap := x.X.Type().Underlying().(*types.Map); !isMap {
						idx = x.Index
					}
				}
				if idx == nil {
					continue
				}
				if hasUnsignedConv(idx) {
					continue
				}
				base := stripConv(idx)
				// x >> k, x / k, x % k : the sign survives (Go truncates towards zero)
				for {
					bo, ok := base.(*ssa.BinOp)
					if !ok || (bo.Op != token.SHR && bo.Op != token.QUO && bo.Op != token.REM) {
						break
					}
					if _, isC := bo.Y.(*ssa.Const); !isC {
						break
					}
					base = stripConv(bo.X)
				}
				if !isRune(base) {
					continue
				}
				if !matchTime[fn] {
					continue
				}
				if _, isConst := base.(*ssa.Const); isConst {
					continue
				}
				ord++
				n++
				c.Visit(name)
				ok := nonNeg(base, 0) || lowerBounded(base, b)
				c.Check(ok, fmt.Sprintf("%s / rune used as an index #%d has a lower bound", name, ord), ins.Pos(), "the index is a rune with no dominating `>= 0` test (and no unsigned conversion / mask): a negative rune in caller-supplied []rune input passes an upper-bound test like `< 128` and panics here")
			}
		}
	}
	if n == 0 {
		c.Anchor("index expressions whose index is a rune")
	}
}

// R-LMALT: a landmark with several alternatives reports its smallest end.
func RLmAlt(c *core.Ctx) {
	c.Rule("R-LMALT", "the search for the next occurrence of a required landmark looks at every alternative (no return from inside the loop over landmark.Alternatives) and keeps the smallest End (a comparison between two End values): the next landmark of the chain is searched from that End, and a failed search ends the whole scan with 'no match', so an End taken from the first alternative that happens to match (`abc` before `a`, or `abc` at 1 before `b` at 2) rejects texts the pattern matches", 1)
	p := c.P
	root := p.Pkg("regexp2")
	if root == nil {
		c.Anchor("package regexp2")
		return
	}
	info := root.TypesInfo
	alts := p.LookupField("syntax", "RequiredLandmark", "Alternatives")
	endF := p.LookupField("regexp2", "requiredLandmarkMatch", "End")
	if alts == nil || endF == nil {
		c.Anchor("syntax.RequiredLandmark.Alternatives / requiredLandmarkMatch.End")
		return
	}
	n := 0
	for _, fd := range p.FuncDecls(root) {
		if fd.Body == nil || p.IsTestFile(fd.Pos()) {
			continue
		}
		name := core.DeclName(root, fd)
		ast.Inspect(fd.Body, func(x ast.Node) bool {
			rs, ok := x.(*ast.RangeStmt)
			if !ok || core.FieldOf(info, rs.X) != alts {
				return true
			}
			// only loops that collect occurrences (they handle End); a loop that merely
			// consults a property of every alternative (R-LMSTART's rewind) is not one
			handlesEnd := false
			ast.Inspect(rs.Body, func(y ast.Node) bool {
				if sel, ok := y.(*ast.SelectorExpr); ok && core.FieldOf(info, sel) == endF {
					handlesEnd = true
				}
				return true
			})
			if !handlesEnd {
				return true
			}
			n++
			c.Visit(name)
			returns := false
			ast.Inspect(rs.Body, func(y ast.Node) bool {
				if _, ok := y.(*ast.FuncLit); ok {
					return false
				}
				if _, ok := y.(*ast.ReturnStmt); ok {
					returns = true
				}
				return true
			})
			c.Check(!returns, fmt.Sprintf("%s / loop over the alternatives of a landmark #%d looks at all of them", name, n), rs.Pos(), "the loop returns the first alternative that matches: its End need not be the smallest one")
			cmp := false
			ast.Inspect(fd.Body, func(y ast.Node) bool {
				be, ok := y.(*ast.BinaryExpr)
				if !ok {
					return true
				}
				switch be.Op {
				case token.LSS, token.LEQ, token.GTR, token.GEQ:
					if core.FieldOf(info, be.X) == endF && core.FieldOf(info, be.Y) == endF {
						cmp = true
					}
				}
				return true
			})
			c.Check(cmp, fmt.Sprintf("%s / loop over the alternatives of a landmark #%d keeps the smallest End", name, n), rs.Pos(), "no comparison between the End of two candidate occurrences in this function")
			return true
		})
	}
	if n == 0 {
		c.Anchor("a loop over RequiredLandmark.Alternatives in package regexp2")
	}
}

// R-RANGEPEND: an arm of the class scanner that ends the iteration early has dealt with a pending range.
func RRangePend(c *core.Ctx) {
	c.Rule("R-RANGEPEND", "in scanCharSet every `continue` of the member loop is reached only after the pending-range flag was looked at on that iteration (tested in an enclosing condition or in the statements of the arm before the continue, or reset): an arm that adds its own member and moves on while a range start is pending leaves `x-` open, and the NEXT member silently becomes the range end", 5)
	p := c.P
	syn := p.Pkg("syntax")
	if syn == nil {
		c.Anchor("package syntax")
		return
	}
	info := syn.TypesInfo
	fd, _ := p.DeclOf(p.LookupFunc("syntax", "parser.scanCharSet"))
	if fd == nil {
		c.Anchor("syntax.parser.scanCharSet")
		return
	}
	c.Visit("syntax.(*parser).scanCharSet")
	// the flag: a bool local assigned `true` next to `chPrev = ch`-like statement; identify by name-independent shape:
	// the bool variable that is set to true in a block that also assigns another local from the loop's character
	var flag types.Object
	ast.Inspect(fd.Body, func(x ast.Node) bool {
		bs, ok := x.(*ast.BlockStmt)
		if !ok || flag != nil {
			return true
		}
		var setTrue types.Object
		copies := false
		for _, st := range bs.List {
			as, ok := st.(*ast.AssignStmt)
			if !ok || len(as.Lhs) != 1 || len(as.Rhs) != 1 {
				continue
			}
			id, ok := as.Lhs[0].(*ast.Ident)
			if !ok {
				continue
			}
			if tv, ok := info.Types[as.Rhs[0]]; ok && tv.Value != nil && tv.Value.String() == "true" {
				setTrue = info.ObjectOf(id)
			} else if _, ok := as.Rhs[0].(*ast.Ident); ok {
				if b, ok := info.TypeOf(as.Lhs[0]).Underlying().(*types.Basic); ok && b.Kind() == types.Int32 {
					copies = true
				}
			}
		}
		if setTrue != nil && copies {
			flag = setTrue
		}
		return true
	})
	if flag == nil {
		c.Anchor("the pending-range flag of scanCharSet (set to true next to `chPrev = ch`)")
		return
	}
	mentions := func(n ast.Node) bool {
		found := false
		ast.Inspect(n, func(y ast.Node) bool {
			if id, ok := y.(*ast.Ident); ok && info.ObjectOf(id) == flag {
				found = true
			}
			return !found
		})
		return found
	}
	// the member loop: the outermost for statement of the function
	var loop *ast.ForStmt
	ast.Inspect(fd.Body, func(x ast.Node) bool {
		if fs, ok := x.(*ast.ForStmt); ok && loop == nil {
			loop = fs
			return false
		}
		return true
	})
	if loop == nil {
		c.Anchor("the member loop of scanCharSet")
		return
	}
	var stack []ast.Node
	n := 0
	ast.Inspect(loop.Body, func(x ast.Node) bool {
		if x == nil {
			stack = stack[:len(stack)-1]
			return true
		}
		stack = append(stack, x)
		br, ok := x.(*ast.BranchStmt)
		if !ok || br.Tok != token.CONTINUE {
			return true
		}
		// inner loops' continues belong to them
		for i := len(stack) - 2; i >= 0; i-- {
			if _, inner := stack[i].(*ast.ForStmt); inner {
				return true
			}
			if _, inner := stack[i].(*ast.RangeStmt); inner {
				return true
			}
		}
		n++
		seen := false
		for i := len(stack) - 2; i >= 0 && !seen; i-- {
			child := stack[i+1]
			switch a := stack[i].(type) {
			case *ast.IfStmt:
				if child != ast.Node(a.Cond) && mentions(a.Cond) {
					seen = true
				}
			case *ast.BlockStmt:
				if i > 0 {
					if _, isSwitch := stack[i-1].(*ast.SwitchStmt); isSwitch {
						break // the other arms of a switch are not "before" this one
					}
				}
				for _, st := range a.List {
					if st == child {
						break
					}
					if st.End() <= child.Pos() && mentions(st) {
						seen = true
					}
				}
			case *ast.CaseClause:
				for _, st := range a.Body {
					if st == child {
						break
					}
					if st.End() <= child.Pos() && mentions(st) {
						seen = true
					}
				}
			}
		}
		label := "?"
		for i := len(stack) - 2; i >= 0; i-- {
			if cc, ok := stack[i].(*ast.CaseClause); ok && len(cc.List) > 0 {
				label = types.ExprString(cc.List[0])
				break
			}
		}
		c.Check(seen, fmt.Sprintf("scanCharSet / continue #%d (arm %s) comes after the pending-range flag was consulted", n, label), br.Pos(), "this arm ends the iteration without looking at the pending-range flag: after `x-` its member is added on its own and the range stays open")
		return true
	})
	if n == 0 {
		c.Anchor("continue statements in the member loop of scanCharSet")
	}
}

// R-TENTATIVE: nothing is added to a class on a path that can still be rolled back.
func RTentative(c *core.Ctx) {
	c.Rule("R-TENTATIVE", "in the parser, between saving the text position (v := p.textpos()) and a roll-back to it (p.textto(v)) no member is added to the class under construction (CharSet.add* calls): the roll-back re-reads the same characters as ordinary members, so whatever was added tentatively stays in the class although the construct was not recognised", 1)
	p := c.P
	syn := p.Pkg("syntax")
	if syn == nil {
		c.Anchor("package syntax")
		return
	}
	info := syn.TypesInfo
	textpos := p.LookupFunc("syntax", "parser.textpos")
	textto := p.LookupFunc("syntax", "parser.textto")
	if textpos == nil || textto == nil {
		c.Anchor("syntax.parser.textpos / textto")
		return
	}
	n := 0
	for _, fd := range p.FuncDecls(syn) {
		if fd.Body == nil || p.IsTestFile(fd.Pos()) {
			continue
		}
		name := core.DeclName(syn, fd)
		// saved positions
		saved := map[types.Object]bool{}
		ast.Inspect(fd.Body, func(x ast.Node) bool {
			as, ok := x.(*ast.AssignStmt)
			if !ok || len(as.Lhs) != 1 || len(as.Rhs) != 1 {
				return true
			}
			call, ok := ast.Unparen(as.Rhs[0]).(*ast.CallExpr)
			if !ok || !core.IsCallTo(info, call, textpos) {
				return true
			}
			if id, ok := as.Lhs[0].(*ast.Ident); ok {
				saved[info.ObjectOf(id)] = true
			}
			return true
		})
		if len(saved) == 0 {
			continue
		}
		var restores []*ast.CallExpr
		var adds []*ast.CallExpr
		ast.Inspect(fd.Body, func(x ast.Node) bool {
			call, ok := x.(*ast.CallExpr)
			if !ok {
				return true
			}
			if core.IsCallTo(info, call, textto) && len(call.Args) == 1 {
				if id, ok := ast.Unparen(call.Args[0]).(*ast.Ident); ok && saved[info.ObjectOf(id)] {
					restores = append(restores, call)
				}
			}
			if fn := core.Callee(info, call); fn != nil && strings.HasPrefix(core.BaseName(fn), "add") {
				if sig, ok := fn.Type().(*types.Signature); ok && sig.Recv() != nil {
					if _, tn := core.NamedOf(sig.Recv().Type()); tn == "CharSet" {
						adds = append(adds, call)
					}
				}
			}
			return true
		})
		if len(restores) == 0 || len(adds) == 0 {
			continue
		}
		g := core.NewGraph(info, fd.Body)
		for ri, rs := range restores {
			n++
			c.Visit(name)
			// the save this restore refers to: innermost enclosing block that contains an assignment of the variable
			vid := ast.Unparen(rs.Args[0]).(*ast.Ident)
			var saveStmt ast.Node
			ast.Inspect(fd.Body, func(x ast.Node) bool {
				as, ok := x.(*ast.AssignStmt)
				if !ok || len(as.Lhs) != 1 {
					return true
				}
				if id, ok := as.Lhs[0].(*ast.Ident); ok && info.ObjectOf(id) == info.ObjectOf(vid) && as.Pos() < rs.Pos() {
					saveStmt = as
				}
				return true
			})
			bad := ""
			rb, _ := g.BlockOf(rs)
			for _, ad := range adds {
				if saveStmt == nil || ad.Pos() < saveStmt.Pos() || ad.Pos() > rs.Pos() {
					continue
				}
				ab, ai := g.BlockOf(ad)
				if ab == nil || rb == nil {
					continue
				}
				// can the add reach the restore without passing the save again?
				isRestore := func(nd ast.Node) bool { return nd.Pos() <= rs.Pos() && rs.End() <= nd.End() }
				isSave := func(nd ast.Node) bool {
					return saveStmt != nil && nd.Pos() <= saveStmt.Pos() && saveStmt.End() <= nd.End()
				}
				if _, reaches := g.ReachesWithout(ab, ai, isRestore, isSave); reaches {
					bad = types.ExprString(ad.Fun) + " at " + p.Pos(ad.Pos())
				}
			}
			c.Check(bad == "", fmt.Sprintf("%s / roll-back #%d of the text position comes before anything was added to the class", name, ri+1), rs.Pos(), "%s runs before this p.textto(%s): what it added stays in the class when the construct is abandoned", bad, vid.Name)
		}
	}
	if n == 0 {
		c.Anchor("a roll-back p.textto(saved) in a function that also adds to a class")
	}
}

// R-POSIXASCII: the POSIX names of RE2 mode are explicit ASCII sets.
func RPosixASCII(c *core.Ctx) {
	c.Rule("R-POSIXASCII", "every arm of addNamedASCII gives its members as an explicit list of ranges with constant bounds <= 0x7f, or delegates to addWord with the ASCII flag set; no arm goes through addDigit / addSpace / addCategory, whose Unicode, ECMAScript and RE2 forms are none of them the POSIX sets ([[:digit:]] is [0-9], [[:space:]] is [\\t\\n\\v\\f\\r ])", 10)
	p := c.P
	syn := p.Pkg("syntax")
	if syn == nil {
		c.Anchor("package syntax")
		return
	}
	info := syn.TypesInfo
	fd, _ := p.DeclOf(p.LookupFunc("syntax", "CharSet.addNamedASCII"))
	if fd == nil {
		c.Anchor("syntax.CharSet.addNamedASCII")
		return
	}
	c.Visit("syntax.(*CharSet).addNamedASCII")
	n := 0
	ast.Inspect(fd.Body, func(x ast.Node) bool {
		cc, ok := x.(*ast.CaseClause)
		if !ok || len(cc.List) == 0 {
			return true
		}
		label := types.ExprString(cc.List[0])
		n++
		okArm, why := false, "the arm neither assigns an explicit range list nor calls addWord(true, ...)"
		for _, st := range cc.Body {
			switch y := st.(type) {
			case *ast.AssignStmt:
				if len(y.Rhs) != 1 {
					continue
				}
				cl, ok := ast.Unparen(y.Rhs[0]).(*ast.CompositeLit)
				if !ok {
					continue
				}
				all := len(cl.Elts) > 0
				for _, el := range cl.Elts {
					inner, ok := el.(*ast.CompositeLit)
					if !ok || len(inner.Elts) != 2 {
						all = false
						break
					}
					for _, b := range inner.Elts {
						if kv, ok := b.(*ast.KeyValueExpr); ok {
							b = kv.Value
						}
						if k, ok := core.ConstInt(info, b); !ok || k < 0 || k > 0x7f {
							all = false
						}
					}
				}
				if all {
					okArm = true
				} else {
					why = "a range bound is not a constant <= 0x7f"
				}
			case *ast.ExprStmt:
				call, ok := y.X.(*ast.CallExpr)
				if !ok {
					continue
				}
				fn := core.Callee(info, call)
				if fn == nil {
					continue
				}
				switch fn.Name() {
				case "addWord":
					if len(call.Args) >= 1 {
						if tv, ok := info.Types[call.Args[0]]; ok && tv.Value != nil && tv.Value.String() == "true" {
							okArm = true
							continue
						}
					}
					why = "addWord is called without the ASCII flag"
				case "addDigit", "addSpace", "addCategory", "addCategories":
					okArm = false
					why = fn.Name() + " is not an ASCII POSIX set in any of its forms"
				}
			case *ast.ReturnStmt:
				// the default arm
				if len(cc.List) == 0 {
					okArm = true
				}
			}
		}
		c.Check(okArm, fmt.Sprintf("addNamedASCII / [:%s:] is an explicit ASCII set", strings.Trim(label, `"`)), cc.Pos(), "%s", why)
		return true
	})
	if n == 0 {
		c.Anchor("the arms of addNamedASCII")
	}
}

// R-UNIONNEG: De Morgan — a union of negated categories is not the negation of their union.
func RUnionNeg(c *core.Ctx) {
	c.Rule("R-UNIONNEG", "the categories of a class form a UNION (charInCategories): wherever several categories are added together to stand for one concept (IgnoreCase widening \\p{Lu} to Lu, Ll and Lt), they are not each given the caller's negate flag — not-Lu OR not-Ll OR not-Lt is every character; a negated group needs one category that names the group (LC) or a negated set", 2)
	p := c.P
	syn := p.Pkg("syntax")
	if syn == nil {
		c.Anchor("package syntax")
		return
	}
	info := syn.TypesInfo
	n := 0
	for _, fd := range p.FuncDecls(syn) {
		if fd.Body == nil || p.IsTestFile(fd.Pos()) {
			continue
		}
		name := core.DeclName(syn, fd)
		ord := 0
		// all addCategories calls of the function, grouped by the block they stand in
		ast.Inspect(fd.Body, func(x ast.Node) bool {
			call, ok := x.(*ast.CallExpr)
			if !ok {
				return true
			}
			fn := core.Callee(info, call)
			if fn == nil || core.BaseName(fn) != "addCategories" {
				return true
			}
			ord++
			n++
			c.Visit(name)
			// literal Category arguments and their Negate expressions
			var negs []string
			for _, a := range call.Args {
				cl, ok := ast.Unparen(a).(*ast.CompositeLit)
				if !ok {
					continue
				}
				neg := "false"
				for _, el := range cl.Elts {
					if kv, ok := el.(*ast.KeyValueExpr); ok {
						if id, ok := kv.Key.(*ast.Ident); ok && id.Name == "Negate" {
							neg = types.ExprString(kv.Value)
						}
					}
				}
				negs = append(negs, neg)
			}
			bad := false
			if len(negs) >= 2 {
				for _, ng := range negs {
					if ng != "false" {
						bad = true
					}
				}
			}
			c.Check(!bad, fmt.Sprintf("%s / addCategories call #%d does not negate the members of a group one by one", name, ord), call.Pos(), "%d categories are added as one group with Negate = %v: the union of the negations is (almost) every character", len(negs), negs)
			return true
		})
	}
	if n == 0 {
		c.Anchor("calls of addCategories")
	}
}

// R-LCTABLE: the hand-written lowercase table agrees with the Unicode case data.
func RLcTable(c *core.Ctx) {
	c.Rule("R-LCTABLE", "every row of lcTable (evaluated from the source: bounds, operation, operand) maps each rune of its range to a case variant of that rune — a member of its unicode.SimpleFold orbit, its unicode.ToLower, or the rune itself; a row that spans characters without case (× U+00D7 inside À..Þ) adds unrelated characters to every IgnoreCase class that contains them", 90)
	p := c.P
	syn := p.Pkg("syntax")
	if syn == nil {
		c.Anchor("package syntax")
		return
	}
	info := syn.TypesInfo
	var lit *ast.CompositeLit
	for _, f := range syn.Syntax {
		ast.Inspect(f, func(x ast.Node) bool {
			vs, ok := x.(*ast.ValueSpec)
			if !ok || len(vs.Names) != 1 || vs.Names[0].Name != "lcTable" || len(vs.Values) != 1 {
				return true
			}
			lit, _ = vs.Values[0].(*ast.CompositeLit)
			return false
		})
	}
	if lit == nil {
		c.Anchor("syntax.lcTable")
		return
	}
	ops := map[string]int64{}
	for _, nm := range []string{"LowercaseSet", "LowercaseAdd", "LowercaseBor", "LowercaseBad"} {
		if v, ok := constInScope(syn.Types, nm); ok {
			ops[nm] = v
		} else {
			c.Anchor("syntax." + nm)
			return
		}
	}
	inOrbit := func(r, m rune) bool {
		if r == m || unicode.ToLower(r) == m || unicode.ToUpper(r) == m {
			return true
		}
		for x := unicode.SimpleFold(r); x != r; x = unicode.SimpleFold(x) {
			if x == m {
				return true
			}
		}
		return false
	}
	for i, el := range lit.Elts {
		row, ok := el.(*ast.CompositeLit)
		if !ok || len(row.Elts) != 4 {
			c.Unknown(fmt.Sprintf("lcTable / row #%d", i+1), el.Pos(), "row is not a four-element literal")
			continue
		}
		var v [4]int64
		okRow := true
		for j, e := range row.Elts {
			k, ok := core.ConstInt(info, e)
			if !ok {
				okRow = false
			}
			v[j] = k
		}
		if !okRow || v[1] < v[0] || v[1]-v[0] > 0x2000 {
			c.Unknown(fmt.Sprintf("lcTable / row #%d", i+1), row.Pos(), "row cannot be evaluated")
			continue
		}
		var bad []string
		for r := rune(v[0]); r <= rune(v[1]); r++ {
			var m rune
			switch v[2] {
			case ops["LowercaseSet"]:
				m = rune(v[3])
			case ops["LowercaseAdd"]:
				m = r + rune(v[3])
			case ops["LowercaseBor"]:
				m = r | 1
			case ops["LowercaseBad"]:
				m = r + (r & 1)
			default:
				m = -1
			}
			if !inOrbit(r, m) {
				bad = append(bad, fmt.Sprintf("U+%04X->U+%04X", r, m))
			}
		}
		key := fmt.Sprintf("lcTable / row U+%04X..U+%04X maps every rune to a case variant", v[0], v[1])
		if len(bad) > 6 {
			bad = append(bad[:6], fmt.Sprintf("... %d in all", len(bad)))
		}
		c.Check(len(bad) == 0, key, row.Pos(), "not case variants: %s", strings.Join(bad, " "))
	}
}

// R-TEXTSLICE: the adapter hands out pieces of the input, not re-encoded runes.
func RTextSlice(c *core.Ctx) {
	c.Rule("R-TEXTSLICE", "the adapter's string- and []byte-returning methods cut their results out of the caller's input (s[lo:hi], b[lo:hi] with byte offsets); nothing in package compat calls Capture.String / Group.String / Match.String / Runes, which re-encode the decoded runes and turn every invalid input byte into U+FFFD (three bytes)", 1)
	p := c.P
	cp := p.Pkg("compat")
	if cp == nil {
		c.Anchor("package compat")
		return
	}
	info := cp.TypesInfo
	nSlices, nBad := 0, 0
	for _, fd := range p.FuncDecls(cp) {
		if fd.Body == nil || p.IsTestFile(fd.Pos()) {
			continue
		}
		name := core.DeclName(cp, fd)
		ast.Inspect(fd.Body, func(x ast.Node) bool {
			switch y := x.(type) {
			case *ast.CallExpr:
				fn := core.Callee(info, y)
				if fn == nil || fn.Pkg() == nil || fn.Pkg().Path() != core.PkgRoot {
					return true
				}
				sig, _ := fn.Type().(*types.Signature)
				if sig == nil || sig.Recv() == nil {
					return true
				}
				_, tn := core.NamedOf(sig.Recv().Type())
				if (tn == "Capture" || tn == "Group" || tn == "Match") && (core.BaseName(fn) == "String" || core.BaseName(fn) == "Runes") {
					nBad++
					c.Visit(name)
					c.Bad(fmt.Sprintf("%s / text taken from re-encoded runes #%d", name, nBad), y.Pos(), "%s.%s() rebuilds the text from decoded runes: invalid bytes of the input come back as U+FFFD; cut the result out of the input with the byte range instead", tn, fn.Name())
				}
			case *ast.SliceExpr:
				if t := info.TypeOf(y.X); t != nil {
					if b, ok := t.Underlying().(*types.Basic); ok && b.Info()&types.IsString != 0 {
						nSlices++
					} else if sl, ok := t.Underlying().(*types.Slice); ok && types.Identical(sl.Elem(), types.Typ[types.Byte]) {
						nSlices++
					}
				}
			}
			return true
		})
	}
	if nSlices == 0 {
		c.Anchor("slices of the input string / byte slice in package compat")
		return
	}
	if nBad == 0 {
		c.OK("compat / results are cut out of the input", token.NoPos, "%d slice expressions on strings / byte slices; no call of Capture.String / Runes", nSlices)
	}
}

// R-NILEMPTY: "no match" is nil.
func RNilEmpty(c *core.Ctx) {
	c.Rule("R-NILEMPTY", "a find-all driver that allocates its result before the loop (make(..., 0, n)) returns nil, not that empty slice, when nothing was appended: the function tests the length of the result against 0 and returns nil — Go's regexp returns nil for no match with every n", 1)
	p := c.P
	n := 0
	for _, short := range []string{"regexp2", "compat"} {
		pk := p.Pkg(short)
		if pk == nil {
			continue
		}
		info := pk.TypesInfo
		for _, fd := range p.FuncDecls(pk) {
			if fd.Body == nil || p.IsTestFile(fd.Pos()) || !strings.Contains(strings.ToLower(fd.Name.Name), "findall") {
				continue
			}
			name := core.DeclName(pk, fd)
			// result variables: returned identifiers of slice type
			returned := map[types.Object]bool{}
			ast.Inspect(fd.Body, func(x ast.Node) bool {
				if rs, ok := x.(*ast.ReturnStmt); ok && len(rs.Results) > 0 {
					if id, ok := ast.Unparen(rs.Results[0]).(*ast.Ident); ok {
						if obj := info.ObjectOf(id); obj != nil {
							if _, isSl := obj.Type().Underlying().(*types.Slice); isSl {
								returned[obj] = true
							}
						}
					}
				}
				return true
			})
			for obj := range returned {
				// pre-allocated with make(T, 0, ...) somewhere?
				prealloc := false
				var at token.Pos
				ast.Inspect(fd.Body, func(x ast.Node) bool {
					as, ok := x.(*ast.AssignStmt)
					if !ok || len(as.Lhs) != 1 || len(as.Rhs) != 1 {
						return true
					}
					id, ok := as.Lhs[0].(*ast.Ident)
					if !ok || info.ObjectOf(id) != obj {
						return true
					}
					call, ok := ast.Unparen(as.Rhs[0]).(*ast.CallExpr)
					if !ok || len(call.Args) < 2 {
						return true
					}
					if fid, ok := call.Fun.(*ast.Ident); ok && fid.Name == "make" {
						if k, ok := core.ConstInt(info, call.Args[1]); ok && k == 0 {
							prealloc = true
							at = as.Pos()
						}
					}
					return true
				})
				if !prealloc {
					continue
				}
				n++
				c.Visit(name)
				tests := false
				ast.Inspect(fd.Body, func(x ast.Node) bool {
					ifs, ok := x.(*ast.IfStmt)
					if !ok {
						return true
					}
					be, ok := ast.Unparen(ifs.Cond).(*ast.BinaryExpr)
					if !ok || be.Op != token.EQL {
						return true
					}
					if k, ok := core.ConstInt(info, be.Y); !ok || k != 0 {
						return true
					}
					call, ok := ast.Unparen(be.X).(*ast.CallExpr)
					if !ok || len(call.Args) != 1 {
						return true
					}
					if fid, ok := call.Fun.(*ast.Ident); !ok || fid.Name != "len" {
						return true
					}
					if id, ok := ast.Unparen(call.Args[0]).(*ast.Ident); ok && info.ObjectOf(id) == obj {
						for _, st := range ifs.Body.List {
							if rs, ok := st.(*ast.ReturnStmt); ok && len(rs.Results) > 0 {
								if tv, ok := info.Types[rs.Results[0]]; ok && tv.IsNil() {
									tests = true
								}
							}
						}
					}
					return true
				})
				c.Check(tests, fmt.Sprintf("%s / pre-allocated result %s is not returned empty", name, obj.Name()), at, "the result is allocated before the loop and returned as it is: with no match the caller gets an empty non-nil slice where the standard library (and this function for n < 0) gives nil")
			}
		}
	}
	if n == 0 {
		c.Anchor("a find-all function that pre-allocates its result")
	}
}
