package rules

// Rules added in the third session (wave 4, second half, and the pre-existing
// defects reported with it).

import (
	"fmt"
	"go/ast"
	"go/token"
	"go/types"
	"golang.org/x/tools/go/ssa"
	"strings"

	"regexlint/internal/core"
)

// R-OVERLAPNEG: polarity of the disjointness tests in canBeMadeAtomic.
func ROverlapNeg(c *core.Ctx) {
	c.Rule("R-OVERLAPNEG", "in canBeMadeAtomic a loop is made atomic only on evidence that it and its successor are DISJOINT: every CharIn / MayOverlap test between the loop and the successor is negated, and every comparison of their characters is `!=` between two positive (or two negated) items and `==` between a positive and a negated one", 20)
	p := c.P
	syn := p.Pkg("syntax")
	info := syn.TypesInfo
	fd, _ := p.DeclOf(p.LookupFunc("syntax", "RegexNode.canBeMadeAtomic"))
	tField := p.LookupField("syntax", "RegexNode", "T")
	chField := p.LookupField("syntax", "RegexNode", "Ch")
	if fd == nil || tField == nil || chField == nil {
		c.Anchor("syntax.RegexNode.canBeMadeAtomic / RegexNode.T / RegexNode.Ch")
		return
	}
	c.Visit("syntax.(*RegexNode).canBeMadeAtomic")
	recv := ""
	if fd.Recv != nil && len(fd.Recv.List) == 1 && len(fd.Recv.List[0].Names) == 1 {
		recv = fd.Recv.List[0].Names[0].Name
	}
	if recv == "" {
		c.Anchor("receiver name of canBeMadeAtomic")
		return
	}
	// the blocks: if <recv>.T == NtXloop ... { body }
	kindOfCond := func(cond ast.Expr) string {
		kind := ""
		ast.Inspect(cond, func(x ast.Node) bool {
			be, ok := x.(*ast.BinaryExpr)
			if !ok || be.Op != token.EQL {
				return true
			}
			sel, ok := ast.Unparen(be.X).(*ast.SelectorExpr)
			if !ok || core.FieldOf(info, sel) != tField || types.ExprString(sel.X) != recv {
				return true
			}
			if id, ok := ast.Unparen(be.Y).(*ast.Ident); ok {
				switch {
				case strings.HasPrefix(id.Name, "NtNotone"):
					kind = "notone"
				case strings.HasPrefix(id.Name, "NtSet"):
					kind = "set"
				case strings.HasPrefix(id.Name, "NtOne"):
					kind = "one"
				}
			}
			return true
		})
		return kind
	}
	mentionsNotone := func(e ast.Expr) bool {
		found := false
		ast.Inspect(e, func(x ast.Node) bool {
			switch y := x.(type) {
			case *ast.Ident:
				if strings.HasPrefix(y.Name, "NtNotone") {
					found = true
				}
			case *ast.SelectorExpr:
				if strings.HasPrefix(y.Sel.Name, "IsNotone") {
					found = true
				}
			}
			return true
		})
		return found
	}
	ord := map[string]int{}
	var doBlock func(kind string, body *ast.BlockStmt)
	doBlock = func(kind string, body *ast.BlockStmt) {
		ast.Inspect(body, func(x ast.Node) bool {
			ifs, ok := x.(*ast.IfStmt)
			if !ok {
				return true
			}
			for _, dj := range disjuncts(ifs.Cond) {
				subNot := mentionsNotone(dj)
				// walk with a parent stack to see negations
				var stack []ast.Node
				ast.Inspect(dj, func(y ast.Node) bool {
					if y == nil {
						stack = stack[:len(stack)-1]
						return true
					}
					stack = append(stack, y)
					switch z := y.(type) {
					case *ast.CallExpr:
						sel, ok := z.Fun.(*ast.SelectorExpr)
						if !ok || (sel.Sel.Name != "CharIn" && sel.Sel.Name != "MayOverlap") {
							return true
						}
						txt := types.ExprString(z)
						if !strings.Contains(txt, recv+".") {
							return true // not a test between the loop and its successor
						}
						neg := false
						for i := len(stack) - 2; i >= 0; i-- {
							if _, isParen := stack[i].(*ast.ParenExpr); isParen {
								continue
							}
							if u, isU := stack[i].(*ast.UnaryExpr); isU && u.Op == token.NOT {
								neg = true
							}
							break
						}
						ord[kind+"/call"]++
						c.Check(neg, fmt.Sprintf("canBeMadeAtomic / %s-loop block: overlap test #%d is negated", kind, ord[kind+"/call"]), z.Pos(), "`%s` is used positively: the loop is made atomic when it DOES overlap its successor, which is exactly when giving characters back can matter", txt)
					case *ast.BinaryExpr:
						if z.Op != token.EQL && z.Op != token.NEQ {
							return true
						}
						isCh := func(e ast.Expr) (bool, bool) { // (is a character of a node, belongs to the receiver)
							e = ast.Unparen(e)
							if sel, ok := e.(*ast.SelectorExpr); ok && core.FieldOf(info, sel) == chField {
								return true, types.ExprString(sel.X) == recv
							}
							if call, ok := e.(*ast.CallExpr); ok {
								if fn := core.Callee(info, call); fn != nil && (fn.Name() == "firstMatchedCharOfMulti" || fn.Name() == "FirstCharOfOneOrMulti") {
									return true, false
								}
							}
							if tv, ok := info.Types[e]; ok && tv.Value != nil {
								if b, ok := tv.Type.Underlying().(*types.Basic); ok && (b.Kind() == types.Int32 || b.Kind() == types.UntypedRune) {
									return true, false
								}
							}
							return false, false
						}
						xc, xr := isCh(z.X)
						yc, yr := isCh(z.Y)
						if !xc || !yc || xr == yr {
							return true
						}
						want := token.NEQ
						if (kind == "notone") != subNot {
							want = token.EQL
						}
						ord[kind+"/cmp"]++
						c.Check(z.Op == want, fmt.Sprintf("canBeMadeAtomic / %s-loop block: character comparison #%d has the polarity of disjointness", kind, ord[kind+"/cmp"]), z.Pos(), "`%s`: loop kind %s, successor %s — disjoint means `%s`", types.ExprString(z), kind, map[bool]string{true: "negated (notone)", false: "positive"}[subNot], want)
					}
					return true
				})
			}
			return true
		})
	}
	n := 0
	ast.Inspect(fd.Body, func(x ast.Node) bool {
		ifs, ok := x.(*ast.IfStmt)
		if !ok {
			return true
		}
		k := kindOfCond(ifs.Cond)
		if k == "" {
			return true
		}
		n++
		doBlock(k, ifs.Body)
		// else-if chains are visited by Inspect as nested IfStmt; do not descend twice into this body
		return true
	})
	if n < 3 {
		c.Anchor("the one / notone / set loop blocks of canBeMadeAtomic")
	}
}

func disjuncts(e ast.Expr) []ast.Expr {
	e = ast.Unparen(e)
	if be, ok := e.(*ast.BinaryExpr); ok && be.Op == token.LOR {
		return append(disjuncts(be.X), disjuncts(be.Y)...)
	}
	return []ast.Expr{e}
}

// R-CASEBIT: bit-5 arithmetic on a character needs a letter test.
func RCaseBit(c *core.Ctx) {
	c.Rule("R-CASEBIT", "an expression that changes the ASCII case bit of a character (x|0x20, x&^0x20, x^0x20, x ± ('a'-'A')) is evaluated only where x is known to be a letter: under a dominating (or same-condition) range test against 'A'/'Z'/'a'/'z', a letter / case predicate applied to x, or on the result of containsAsciiIgnoreCaseCharacter — for '@' '[' '\\\\' ']' '^' '_' and their partners bit 5 is not case", 5)
	p := c.P
	n := 0
	for _, pk := range p.ModulePkgs() {
		info := pk.TypesInfo
		for _, fd := range p.FuncDecls(pk) {
			if fd.Body == nil || p.IsTestFile(fd.Pos()) {
				continue
			}
			name := core.DeclName(pk, fd)
			var g *core.Graph
			ord := 0
			// variables assigned from a call of containsAsciiIgnoreCaseCharacter
			letterVars := map[types.Object]bool{}
			ast.Inspect(fd.Body, func(x ast.Node) bool {
				as, ok := x.(*ast.AssignStmt)
				if !ok || len(as.Rhs) != 1 {
					return true
				}
				call, ok := as.Rhs[0].(*ast.CallExpr)
				if !ok {
					return true
				}
				if fn := core.Callee(info, call); fn != nil && fn.Name() == "containsAsciiIgnoreCaseCharacter" {
					for _, l := range as.Lhs {
						if id, ok := l.(*ast.Ident); ok {
							letterVars[info.ObjectOf(id)] = true
						}
					}
				}
				return true
			})
			var stack []ast.Node
			ast.Inspect(fd.Body, func(x ast.Node) bool {
				if x == nil {
					stack = stack[:len(stack)-1]
					return true
				}
				stack = append(stack, x)
				be, ok := x.(*ast.BinaryExpr)
				if !ok {
					return true
				}
				var operand ast.Expr
				switch be.Op {
				case token.OR, token.AND_NOT, token.XOR:
					if k, ok := core.ConstInt(info, be.Y); ok && k == 0x20 {
						operand = be.X
					} else if k, ok := core.ConstInt(info, be.X); ok && k == 0x20 {
						operand = be.Y
					}
				case token.ADD, token.SUB:
					// only the spelled-out case distance ('a' - 'A'); a bare 32 is usually bit arithmetic
					if k, ok := core.ConstInt(info, be.Y); ok && (k == 32 || k == -32) {
						if t := types.ExprString(ast.Unparen(be.Y)); strings.Contains(t, "'a'") && strings.Contains(t, "'A'") {
							operand = be.X
						}
					}
				}
				if operand == nil {
					return true
				}
				if _, isConst := core.ConstInt(info, operand); isConst {
					return true
				}
				bt, ok := info.TypeOf(operand).Underlying().(*types.Basic)
				if !ok || (bt.Kind() != types.Int32 && bt.Kind() != types.Uint8) {
					return true
				}
				ord++
				n++
				c.Visit(name)
				opText := types.ExprString(ast.Unparen(operand))
				// (a) result of containsAsciiIgnoreCaseCharacter
				root := ast.Unparen(operand)
				if ix, ok := root.(*ast.IndexExpr); ok {
					root = ast.Unparen(ix.X)
				}
				if id, ok := root.(*ast.Ident); ok && letterVars[info.ObjectOf(id)] {
					c.OK(fmt.Sprintf("%s / case-bit arithmetic #%d on a known letter", name, ord), be.Pos(), "%s comes from containsAsciiIgnoreCaseCharacter (letters only, R-OR20)", opText)
					return true
				}
				isLetterTest := func(e ast.Expr) bool {
					found := false
					ast.Inspect(e, func(y ast.Node) bool {
						switch z := y.(type) {
						case *ast.BinaryExpr:
							switch z.Op {
							case token.LSS, token.LEQ, token.GTR, token.GEQ:
								for _, pair := range [][2]ast.Expr{{z.X, z.Y}, {z.Y, z.X}} {
									if types.ExprString(ast.Unparen(pair[0])) != opText {
										continue
									}
									if k, ok := core.ConstInt(info, pair[1]); ok && (k == 'A' || k == 'Z' || k == 'a' || k == 'z') {
										found = true
									}
								}
							}
						case *ast.CallExpr:
							fn := core.Callee(info, z)
							if fn == nil || len(z.Args) == 0 {
								return true
							}
							ln := strings.ToLower(fn.Name())
							if strings.Contains(ln, "letter") || strings.Contains(ln, "isupper") || strings.Contains(ln, "islower") || strings.Contains(ln, "caseconversion") {
								for _, a := range z.Args {
									if types.ExprString(ast.Unparen(a)) == opText {
										found = true
									}
								}
							}
						}
						return true
					})
					return found
				}
				guarded := false
				// (b) same condition: an enclosing && / || chain that contains a letter test of the operand
				for i := len(stack) - 2; i >= 0 && !guarded; i-- {
					e, ok := stack[i].(ast.Expr)
					if !ok {
						break
					}
					if b2, ok := e.(*ast.BinaryExpr); ok && (b2.Op == token.LAND || b2.Op == token.LOR) && isLetterTest(b2) {
						guarded = true
					}
				}
				// (c) dominating branch facts
				if !guarded {
					if g == nil {
						g = core.NewGraph(info, fd.Body)
					}
					if b, _ := g.BlockOf(be); b != nil {
						for _, f := range g.FactsAt(b) {
							if isLetterTest(f.Cond) {
								guarded = true
							}
						}
					}
				}
				c.Check(guarded, fmt.Sprintf("%s / case-bit arithmetic #%d is under a letter test", name, ord), be.Pos(), "`%s` is evaluated for any value of %s: for non-letters ('@'/'`', '['/'{', '_'/DEL ...) the result is another character, not another case", types.ExprString(be), opText)
				return true
			})
		}
	}
	if n == 0 {
		c.Anchor("case-bit arithmetic sites (x|0x20, x-('a'-'A'))")
	}
}

// R-MINLENUSE: a minimum length of 0 is not "always matches".
func RMinLenUse(c *core.Ctx) {
	c.Rule("R-MINLENUSE", "the result of ComputeMinLength is used as a length only — added, multiplied, compared with another length, stored, returned; it is never compared with a constant to steer a rewrite: a node of minimum length 0 (an anchor, a lookaround, a backreference, \\b) can still fail, so `ComputeMinLength() == 0` does not mean \"matches wherever tried\"", 8)
	p := c.P
	target := p.LookupFunc("syntax", "RegexNode.ComputeMinLength")
	if target == nil {
		c.Anchor("syntax.RegexNode.ComputeMinLength")
		return
	}
	n := 0
	for _, fn := range p.ModuleFuncs() {
		name := core.SSAName(fn)
		ord := 0
		for _, b := range fn.Blocks {
			for _, ins := range b.Instrs {
				call, ok := ins.(*ssa.Call)
				if !ok {
					continue
				}
				cal := call.Call.StaticCallee()
				if cal == nil || cal.Object() != types.Object(target) {
					continue
				}
				ord++
				n++
				c.Visit(name)
				// forward through phis / stores to locals are not followed: the helpers keep lengths in SSA values
				seen := map[ssa.Value]bool{}
				var bad ssa.Instruction
				var walk func(v ssa.Value)
				walk = func(v ssa.Value) {
					if seen[v] || bad != nil {
						return
					}
					seen[v] = true
					for _, r := range core.Referrers(v) {
						switch x := r.(type) {
						case *ssa.Phi:
							walk(x)
						case *ssa.BinOp:
							switch x.Op {
							case token.EQL, token.NEQ, token.LSS, token.LEQ, token.GTR, token.GEQ:
								other := x.X
								if other == v {
									other = x.Y
								}
								if _, isConst := other.(*ssa.Const); isConst {
									bad = x
								}
							}
						}
					}
				}
				walk(call)
				key := fmt.Sprintf("%s / use of ComputeMinLength() #%d", name, ord)
				if bad != nil && fn.Object() == types.Object(target) {
					// exception (one symbol): inside ComputeMinLength itself `min > 0` only stops taking
					// the minimum over further branches early — the value still leaves as a length
					c.OK(key, call.Pos(), "compared with a constant inside ComputeMinLength itself (early exit of the minimum over branches); the result is still only a length")
					continue
				}
				if bad != nil {
					c.Bad(key, bad.Pos(), "the minimum length is compared with a constant (%s): a minimum of 0 does not mean the node always matches", bad.String())
				} else {
					c.OK(key, call.Pos(), "used as a length")
				}
			}
		}
	}
	if n == 0 {
		c.Anchor("calls of ComputeMinLength")
	}
}

// R-LOOKFACT: what a lookahead requires lies to the RIGHT of the position; it may
// feed a search fact only for a left-to-right pattern.
func RLookFact(c *core.Ctx) {
	c.Rule("R-LOOKFACT", "in the analyses reachable from newFindOptimizations, the content of a positive lookahead (X.Children[k] where X is known to be NtPosLook, or was returned by findLeadingPositiveLookahead) is looked at only under a test of the direction of the PATTERN or of a node on the way to X — the lookahead's own Options never carry RightToLeft, so a test on X alone says nothing (a variable that walks down the tree and is tested at every step counts)", 1)
	p := c.P
	syn := p.Pkg("syntax")
	if syn == nil {
		c.Anchor("package syntax")
		return
	}
	info := syn.TypesInfo
	entry := p.LookupFunc("syntax", "newFindOptimizations")
	rtlConst := p.LookupObj("syntax", "RightToLeft")
	tField := p.LookupField("syntax", "RegexNode", "T")
	chField := p.LookupField("syntax", "RegexNode", "Children")
	posLook := p.LookupObj("syntax", "NtPosLook")
	if entry == nil || rtlConst == nil || tField == nil || chField == nil || posLook == nil {
		c.Anchor("syntax.newFindOptimizations / RightToLeft / RegexNode.T / RegexNode.Children / NtPosLook")
		return
	}
	// static call closure from the entry, inside package syntax
	decl := map[*types.Func]*ast.FuncDecl{}
	for _, fd := range p.FuncDecls(syn) {
		if fn, ok := info.Defs[fd.Name].(*types.Func); ok && fd.Body != nil {
			decl[fn] = fd
		}
	}
	reach := map[*types.Func]bool{entry: true}
	work := []*types.Func{entry}
	for len(work) > 0 {
		fn := work[len(work)-1]
		work = work[:len(work)-1]
		fd := decl[fn]
		if fd == nil {
			continue
		}
		ast.Inspect(fd.Body, func(x ast.Node) bool {
			if call, ok := x.(*ast.CallExpr); ok {
				if cal := core.Callee(info, call); cal != nil && decl[cal] != nil && !reach[cal] {
					reach[cal] = true
					work = append(work, cal)
				}
			}
			return true
		})
	}
	rootIdent := func(e ast.Expr) types.Object {
		for {
			e = ast.Unparen(e)
			switch x := e.(type) {
			case *ast.SelectorExpr:
				e = x.X
			case *ast.IndexExpr:
				e = x.X
			case *ast.CallExpr:
				if sel, ok := x.Fun.(*ast.SelectorExpr); ok {
					e = sel.X
				} else {
					return nil
				}
			case *ast.Ident:
				return info.ObjectOf(x)
			default:
				return nil
			}
		}
	}
	// direction tests in an expression, with the object each is about
	dirSubjects := func(e ast.Expr) []types.Object {
		var out []types.Object
		ast.Inspect(e, func(x ast.Node) bool {
			switch y := x.(type) {
			case *ast.BinaryExpr:
				if y.Op == token.AND {
					if core.ObjOf(info, y.Y) == rtlConst {
						out = append(out, rootIdent(y.X))
					} else if core.ObjOf(info, y.X) == rtlConst {
						out = append(out, rootIdent(y.Y))
					}
				}
			case *ast.SelectorExpr:
				if strings.EqualFold(y.Sel.Name, "rightToLeft") {
					out = append(out, rootIdent(y.X))
				}
			}
			return true
		})
		return out
	}
	nSites := 0
	var fns []*types.Func
	for fn := range reach {
		fns = append(fns, fn)
	}
	sortFuncsByPos(fns)
	for _, fn := range fns {
		fd := decl[fn]
		if fd == nil {
			continue
		}
		name := core.DeclName(syn, fd)
		var g *core.Graph
		graph := func() *core.Graph {
			if g == nil {
				g = core.NewGraph(info, fd.Body)
			}
			return g
		}
		// variables that walk down the tree: V = V.Children[...]
		walks := map[types.Object]bool{}
		// variables holding the result of a *Lookahead* finder
		fromFinder := map[types.Object]bool{}
		ast.Inspect(fd.Body, func(x ast.Node) bool {
			as, ok := x.(*ast.AssignStmt)
			if !ok {
				return true
			}
			for i, l := range as.Lhs {
				id, ok := l.(*ast.Ident)
				if !ok {
					continue
				}
				obj := info.ObjectOf(id)
				if i < len(as.Rhs) {
					if ix, ok := ast.Unparen(as.Rhs[i]).(*ast.IndexExpr); ok {
						if sel, ok := ast.Unparen(ix.X).(*ast.SelectorExpr); ok && core.FieldOf(info, sel) == chField && rootIdent(sel.X) == obj {
							walks[obj] = true
						}
					}
				}
				if len(as.Rhs) == 1 {
					if call, ok := ast.Unparen(as.Rhs[0]).(*ast.CallExpr); ok && i == 0 {
						if cal := core.Callee(info, call); cal != nil && strings.Contains(cal.Name(), "PositiveLookahead") {
							fromFinder[obj] = true
						}
					}
				}
			}
			return true
		})
		isPosLookTest := func(e ast.Expr, v types.Object, val bool) bool {
			for _, cj := range conjunctsOrNegDisjuncts(core.EdgeFact{Cond: e, Value: val}) {
				be, ok := ast.Unparen(cj.e).(*ast.BinaryExpr)
				if !ok {
					continue
				}
				if (be.Op == token.EQL && cj.val) || (be.Op == token.NEQ && !cj.val) {
					for _, pr := range [][2]ast.Expr{{be.X, be.Y}, {be.Y, be.X}} {
						if core.FieldOf(info, pr[0]) == tField && rootIdent(pr[0]) == v && core.ObjOf(info, pr[1]) == posLook {
							return true
						}
					}
				}
			}
			return false
		}
		var stack []ast.Node
		ord := 0
		ast.Inspect(fd.Body, func(x ast.Node) bool {
			if x == nil {
				stack = stack[:len(stack)-1]
				return true
			}
			stack = append(stack, x)
			ix, ok := x.(*ast.IndexExpr)
			if !ok {
				return true
			}
			sel, ok := ast.Unparen(ix.X).(*ast.SelectorExpr)
			if !ok || core.FieldOf(info, sel) != chField {
				return true
			}
			vid, ok := ast.Unparen(sel.X).(*ast.Ident)
			if !ok {
				return true
			}
			v := info.ObjectOf(vid)
			// is V known to be a positive lookahead here?
			known := fromFinder[v]
			var guards []ast.Expr // conditions known true (or the switch arm) on the way here, as (expr,value)
			type gv struct {
				e   ast.Expr
				val bool
			}
			var facts []gv
			if b, _ := graph().BlockOf(ix); b != nil {
				for _, f := range graph().FactsAt(b) {
					facts = append(facts, gv{f.Cond, f.Value})
				}
				for _, nd := range b.Nodes {
					if nd.Pos() <= ix.Pos() && ix.End() <= nd.End() {
						if e, ok := nd.(ast.Expr); ok {
							guards = append(guards, shortCircuitGuards(e, ix.Pos())...)
						}
					}
				}
			}
			for _, f := range facts {
				if isPosLookTest(f.e, v, f.val) {
					known = true
				}
			}
			for _, ge := range guards {
				// a left operand of && that holds: only the && case establishes truth; accept the syntactic form
				if isPosLookTest(ge, v, true) {
					known = true
				}
			}
			// enclosing `case NtPosLook` of `switch V.T`
			for i := len(stack) - 1; i >= 0; i-- {
				cc, ok := stack[i].(*ast.CaseClause)
				if !ok {
					continue
				}
				hasPos := false
				for _, e := range cc.List {
					if core.ObjOf(info, e) == posLook {
						hasPos = true
					}
				}
				if hasPos && i >= 2 {
					if sw, ok := stack[i-2].(*ast.SwitchStmt); ok && sw.Tag != nil && core.FieldOf(info, sw.Tag) == tField && rootIdent(sw.Tag) == v {
						known = true
					}
				}
				break
			}
			if !known {
				return true
			}
			ord++
			nSites++
			c.Visit(name)
			// direction guard
			ok2 := false
			why := "no direction test dominates it"
			consider := func(e ast.Expr) {
				for _, subj := range dirSubjects(e) {
					if subj != v || walks[v] {
						ok2 = true
					} else {
						why = "the only direction test is on the lookahead node itself, whose Options never carry RightToLeft"
					}
				}
			}
			for _, f := range facts {
				consider(f.e)
			}
			for _, ge := range guards {
				consider(ge)
			}
			c.Check(ok2, fmt.Sprintf("%s / content of a positive lookahead used #%d under a direction test of the pattern", name, ord), ix.Pos(), "%s: %s; in a right-to-left pattern what a lookahead requires lies behind the scan direction", types.ExprString(ix), why)
			return true
		})
	}
	if nSites == 0 {
		c.Anchor("uses of a positive lookahead's content in the find-optimisation analyses")
	}
}

func sortFuncsByPos(fns []*types.Func) {
	for i := 1; i < len(fns); i++ {
		for j := i; j > 0 && fns[j].Pos() < fns[j-1].Pos(); j-- {
			fns[j], fns[j-1] = fns[j-1], fns[j]
		}
	}
}

// R-ENDCHILD: concatenations are stored in execution order (R-REVERSE), so no
// child position may be chosen by direction.
func REndChild(c *core.Ctx) {
	c.Rule("R-ENDCHILD", "in package syntax no variable used as an index into a node's Children (or handed to ReplaceChild / InsertChild) is assigned under a test of the direction: the parser reverses right-to-left concatenations while building them, so Children[0] is what runs first and Children[len-1] what runs last in both directions; picking the other end for RightToLeft undoes that", 1)
	p := c.P
	syn := p.Pkg("syntax")
	if syn == nil {
		c.Anchor("package syntax")
		return
	}
	info := syn.TypesInfo
	rtlConst := p.LookupObj("syntax", "RightToLeft")
	chField := p.LookupField("syntax", "RegexNode", "Children")
	if rtlConst == nil || chField == nil {
		c.Anchor("syntax.RightToLeft / RegexNode.Children")
		return
	}
	nIdx, nBad := 0, 0
	for _, fd := range p.FuncDecls(syn) {
		if fd.Body == nil || p.IsTestFile(fd.Pos()) {
			continue
		}
		name := core.DeclName(syn, fd)
		if name == "syntax.(*RegexNode).reverseLeft" {
			continue // the one place that puts right-to-left children into execution order (R-REVERSE)
		}
		// index variables
		idxVars := map[types.Object]token.Pos{}
		ast.Inspect(fd.Body, func(x ast.Node) bool {
			switch y := x.(type) {
			case *ast.IndexExpr:
				if sel, ok := ast.Unparen(y.X).(*ast.SelectorExpr); ok && core.FieldOf(info, sel) == chField {
					nIdx++
					if id, ok := ast.Unparen(y.Index).(*ast.Ident); ok {
						if obj := info.ObjectOf(id); obj != nil {
							if _, seen := idxVars[obj]; !seen {
								idxVars[obj] = y.Pos()
							}
						}
					}
				}
			case *ast.CallExpr:
				if fn := core.Callee(info, y); fn != nil && (fn.Name() == "ReplaceChild" || fn.Name() == "InsertChild") && len(y.Args) > 0 {
					if id, ok := ast.Unparen(y.Args[0]).(*ast.Ident); ok {
						if obj := info.ObjectOf(id); obj != nil {
							if _, seen := idxVars[obj]; !seen {
								idxVars[obj] = y.Pos()
							}
						}
					}
				}
			}
			return true
		})
		if len(idxVars) == 0 {
			continue
		}
		dirVars := directionVars(info, fd, rtlConst)
		var g *core.Graph
		ast.Inspect(fd.Body, func(x ast.Node) bool {
			as, ok := x.(*ast.AssignStmt)
			if !ok {
				return true
			}
			for _, l := range as.Lhs {
				id, ok := l.(*ast.Ident)
				if !ok {
					continue
				}
				obj := info.ObjectOf(id)
				if _, isIdx := idxVars[obj]; !isIdx {
					continue
				}
				if g == nil {
					g = core.NewGraph(info, fd.Body)
				}
				// the variable must live outside the direction branch: declared where no direction test holds
				declGuarded := false
				if obj.Pos().IsValid() {
					declGuarded = guardedByDirection(info, g, &posNode{obj.Pos()}, rtlConst, dirVars)
				}
				if guardedByDirection(info, g, as, rtlConst, dirVars) && !declGuarded {
					nBad++
					c.Visit(name)
					c.Bad(fmt.Sprintf("%s / child index %s chosen by direction #%d", name, id.Name, nBad), as.Pos(), "`%s` is assigned under a direction test and then used as a position in Children: right-to-left concatenations are already stored in execution order", id.Name)
				}
			}
			return true
		})
	}
	if nIdx == 0 {
		c.Anchor("index expressions on RegexNode.Children")
		return
	}
	if nBad == 0 {
		for i := 0; i < nIdx; i++ {
			// one obligation per examined index site would drown the evidence; record the count
			break
		}
		c.OK("syntax / no child position chosen by direction", token.NoPos, "%d index expressions on Children examined", nIdx)
	}
	c.Note("R-ENDCHILD: %d Children index expressions examined", nIdx)
}

// R-CATPRED: a stdlib predicate is not a general category.
func RCatPred(c *core.Ctx) {
	c.Rule("R-CATPRED", "membership in a named Unicode category is decided by unicode.Is on the table looked up for that name: in package syntax the predicates unicode.IsSpace / IsLetter / IsPunct / ... are only ever called directly (never kept as values in a table keyed by category name), and in charInCategories they are called only in the arms of the engine's own pseudo-categories; the default arm uses unicode.Is and no call through a function value (unicode.IsSpace is not Z, unicode.IsControl is not C)", 3)
	p := c.P
	syn := p.Pkg("syntax")
	if syn == nil {
		c.Anchor("package syntax")
		return
	}
	info := syn.TypesInfo
	isUniPred := func(obj types.Object) bool {
		fn, ok := obj.(*types.Func)
		if !ok || fn.Pkg() == nil || fn.Pkg().Path() != "unicode" {
			return false
		}
		n := fn.Name()
		return strings.HasPrefix(n, "Is") && n != "Is" && n != "IsOneOf"
	}
	// (1) predicate functions are only called, never used as values
	nRefs := 0
	for _, f := range syn.Syntax {
		if p.IsTestFile(f.Pos()) {
			continue
		}
		callFuns := map[ast.Expr]bool{}
		ast.Inspect(f, func(x ast.Node) bool {
			if call, ok := x.(*ast.CallExpr); ok {
				callFuns[ast.Unparen(call.Fun)] = true
			}
			return true
		})
		ast.Inspect(f, func(x ast.Node) bool {
			sel, ok := x.(*ast.SelectorExpr)
			if !ok || !isUniPred(info.Uses[sel.Sel]) {
				return true
			}
			nRefs++
			fd := core.EnclosingFunc(syn, sel.Pos())
			where := "package level"
			if fd != nil {
				where = core.DeclName(syn, fd)
			}
			c.Check(callFuns[sel], fmt.Sprintf("%s / unicode.%s is called, not kept as a value #%d", where, sel.Sel.Name, nRefs), sel.Pos(), "unicode.%s is used as a function value: a table of predicates standing in for categories cannot be compared with the category tables", sel.Sel.Name)
			return true
		})
	}
	// (2) charInCategories: the default arm
	fd, _ := p.DeclOf(p.LookupFunc("syntax", "CharSet.charInCategories"))
	if fd == nil {
		c.Anchor("syntax.CharSet.charInCategories")
		return
	}
	c.Visit("syntax.(*CharSet).charInCategories")
	found := false
	ast.Inspect(fd.Body, func(x ast.Node) bool {
		cc, ok := x.(*ast.CaseClause)
		if !ok || cc.List != nil {
			return true
		}
		found = true
		usesIs, bad := false, ""
		for _, st := range cc.Body {
			ast.Inspect(st, func(y ast.Node) bool {
				call, ok := y.(*ast.CallExpr)
				if !ok {
					return true
				}
				fn := core.Callee(info, call)
				switch {
				case fn == nil:
					if _, isConv := info.Types[call.Fun]; isConv && info.Types[call.Fun].IsType() {
						return true
					}
					if id, ok := ast.Unparen(call.Fun).(*ast.Ident); ok {
						if _, isB := info.Uses[id].(*types.Builtin); isB {
							return true
						}
					}
					bad = "a call through a function value: " + types.ExprString(call.Fun)
				case fn.Pkg() != nil && fn.Pkg().Path() == "unicode" && (fn.Name() == "Is" || fn.Name() == "In"):
					usesIs = true
				case isUniPred(fn):
					bad = "unicode." + fn.Name()
				}
				return true
			})
		}
		c.Check(usesIs && bad == "", "charInCategories / the arm for named Unicode categories decides with unicode.Is on the looked-up table", cc.Pos(), "uses unicode.Is: %v; also found: %s", usesIs, bad)
		return true
	})
	if !found {
		c.Anchor("the default arm of the category switch in charInCategories")
	}
}
