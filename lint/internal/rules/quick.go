package rules

import (
	"fmt"
	"go/ast"
	"go/token"
	"go/types"
	"strings"

	"regexlint/internal/core"
)

// ---------------------------------------------------------------------------
// R-QUICKOMIT: what the capture-free "quick" program may leave out.
//
// The writer emits a second program in which captures nobody reads are
// dropped; emitCapture decides, per Capture node, whether Setmark/Capturemark
// are emitted.  The bool-only and find-all entry points run that program, so
// it must accept exactly the same texts.  An instruction may be dropped only
// if executing it can neither fail nor change what a later instruction sees:
//   (1) the full program (quickCaptureSlots == nil) drops nothing;
//   (2) a Capturemark whose second operand is not -1 (a balancing group) is
//       never dropped: the interpreter's Capturemark clause FAILS when that
//       group has no capture, and pops it otherwise — read from the clause;
//   (3) a capture whose slot is marked in use is never dropped.
// emitCapture is evaluated symbolically (three-valued) under each assumption.
// ---------------------------------------------------------------------------

type tri int

const (
	tFalse tri = iota
	tTrue
	tUnknown
)

type boolEval struct {
	info   *types.Info
	defs   map[types.Object]ast.Expr
	assume map[string]bool // normalised atom text -> value
}

func (be *boolEval) text(e ast.Expr) string {
	// resolve locals to their defining expression so that assumptions can be stated on pattern-level expressions
	e = ast.Unparen(e)
	switch x := e.(type) {
	case *ast.Ident:
		if rhs, ok := be.defs[be.info.ObjectOf(x)]; ok {
			return be.text(rhs)
		}
		return x.Name
	case *ast.BinaryExpr:
		return be.text(x.X) + " " + x.Op.String() + " " + be.text(x.Y)
	case *ast.CallExpr:
		var args []string
		for _, a := range x.Args {
			args = append(args, be.text(a))
		}
		return types.ExprString(x.Fun) + "(" + strings.Join(args, ", ") + ")"
	case *ast.IndexExpr:
		return be.text(x.X) + "[" + be.text(x.Index) + "]"
	case *ast.UnaryExpr:
		return x.Op.String() + be.text(x.X)
	}
	return types.ExprString(e)
}

func (be *boolEval) eval(e ast.Expr) tri {
	e = ast.Unparen(e)
	if tv, ok := be.info.Types[e]; ok && tv.Value != nil {
		if tv.Value.String() == "true" {
			return tTrue
		}
		if tv.Value.String() == "false" {
			return tFalse
		}
	}
	switch x := e.(type) {
	case *ast.UnaryExpr:
		if x.Op == token.NOT {
			switch be.eval(x.X) {
			case tTrue:
				return tFalse
			case tFalse:
				return tTrue
			}
			return tUnknown
		}
	case *ast.BinaryExpr:
		switch x.Op {
		case token.LAND:
			a, b := be.eval(x.X), be.eval(x.Y)
			if a == tFalse || b == tFalse {
				return tFalse
			}
			if a == tTrue && b == tTrue {
				return tTrue
			}
			return tUnknown
		case token.LOR:
			a, b := be.eval(x.X), be.eval(x.Y)
			if a == tTrue || b == tTrue {
				return tTrue
			}
			if a == tFalse && b == tFalse {
				return tFalse
			}
			return tUnknown
		case token.EQL, token.NEQ:
			// normalise to the == form
			key := be.text(x.X) + " == " + be.text(x.Y)
			if v, ok := be.assume[key]; ok {
				if (x.Op == token.EQL) == v {
					return tTrue
				}
				return tFalse
			}
		}
	case *ast.Ident:
		if rhs, ok := be.defs[be.info.ObjectOf(x)]; ok {
			return be.eval(rhs)
		}
	}
	if v, ok := be.assume[be.text(e)]; ok {
		if v {
			return tTrue
		}
		return tFalse
	}
	return tUnknown
}

// mustReturnTrue walks a statement list of the shape `if c { return e }* ; return e`
// and reports the first return that is not provably true under the assumptions.
func (be *boolEval) mustReturnTrue(stmts []ast.Stmt) (ok bool, why string, decided bool) {
	saved := map[string]bool{}
	for k, v := range be.assume {
		saved[k] = v
	}
	defer func() { be.assume = saved }()
	for _, st := range stmts {
		switch x := st.(type) {
		case *ast.AssignStmt, *ast.DeclStmt, *ast.EmptyStmt:
			continue
		case *ast.ReturnStmt:
			if len(x.Results) != 1 {
				return false, "unexpected return shape", false
			}
			switch be.eval(x.Results[0]) {
			case tTrue:
				return true, "", true
			case tFalse:
				return false, "returns false: " + types.ExprString(x.Results[0]), true
			}
			return false, "may return false: " + types.ExprString(x.Results[0]), true
		case *ast.IfStmt:
			if x.Init != nil || x.Else != nil {
				return false, "unsupported if form", false
			}
			v := be.eval(x.Cond)
			if v == tFalse {
				continue
			}
			// then-branch must end in a return for this simple walker
			okT, whyT, decT := be.mustReturnTrue(x.Body.List)
			if !decT {
				return false, whyT, false
			}
			if v == tTrue {
				return okT, whyT, true
			}
			if !okT {
				return false, whyT, true
			}
			// continue with the condition false: record it when it is a plain equality atom
			if b, isB := ast.Unparen(x.Cond).(*ast.BinaryExpr); isB && (b.Op == token.EQL || b.Op == token.NEQ) {
				be.assume[be.text(b.X)+" == "+be.text(b.Y)] = b.Op == token.NEQ
			}
		default:
			return false, fmt.Sprintf("unsupported statement %T", st), false
		}
	}
	return false, "falls off the end", false
}

func RQuickOmit(c *core.Ctx) {
	c.Rule("R-QUICKOMIT", "emitCapture (which decides whether a Capture node's Setmark/Capturemark are emitted into the capture-free quick program) returns true (1) whenever the full program is being written, (2) whenever the Capturemark's second operand is not -1 — the interpreter's Capturemark clause has a failing path conditioned on exactly that operand, so dropping it changes which texts match — and (3) whenever the capture's slot is marked in use", 3)
	p := c.P
	syn := p.Pkg("syntax")
	info := syn.TypesInfo
	fd, _ := p.DeclOf(p.LookupFunc("syntax", "writer.emitCapture"))
	m := buildOpModel(c)
	if fd == nil || !m.ok {
		c.Anchor("syntax.writer.emitCapture / bytecode model")
		return
	}
	c.Visit("syntax.(*writer).emitCapture")
	// the Capturemark emit guarded by emitCapture, and its operand expressions
	capOp, okOp := m.opByNm["Capturemark"]
	if !okOp {
		c.Anchor("syntax.Capturemark")
		return
	}
	var capEmit *ast.CallExpr
	for _, s := range m.emits {
		for _, op := range s.ops {
			if op == capOp && len(s.call.Args) == 3 {
				capEmit = s.call
			}
		}
	}
	if capEmit == nil {
		c.Anchor("emit2(Capturemark, …) in emitFragment")
		return
	}
	// (link) the interpreter's Capturemark clause can fail, conditioned on operand(1) != -1
	rinfo := p.Pkg("").TypesInfo
	opField := p.LookupField("", "Runner", "operator")
	failsOnOperand1 := false
	for _, cl := range m.clauses {
		for _, l := range cl.labels {
			if l.op != capOp || l.back || l.back2 {
				continue
			}
			pe := &pathEnum{info: rinfo, opField: opField, mask: m.mask, limit: 4000, ok: true}
			for _, sp := range pe.paths(cl.cc.Body, -1) {
				if sp.exit != exitBreak {
					continue
				}
				for _, f := range sp.facts {
					if strings.Contains(f.expr, "operand(1)") {
						failsOnOperand1 = true
					}
				}
			}
		}
	}
	defs := map[types.Object]ast.Expr{}
	ast.Inspect(fd.Body, func(x ast.Node) bool {
		if as, ok := x.(*ast.AssignStmt); ok && as.Tok == token.DEFINE && len(as.Lhs) == len(as.Rhs) {
			for i, l := range as.Lhs {
				if id, ok := l.(*ast.Ident); ok {
					defs[info.ObjectOf(id)] = as.Rhs[i]
				}
			}
		}
		return true
	})
	be := &boolEval{info: info, defs: defs}
	// the writer's receiver and node parameter names in emitCapture may differ from emitFragment's: rename by position
	rename := func(e ast.Expr) string {
		s := (&boolEval{info: info, defs: map[types.Object]ast.Expr{}}).text(e)
		return s
	}
	uncap := rename(capEmit.Args[2])
	capn := rename(capEmit.Args[1])
	slots := "w.quickCaptureSlots"
	run := func(key string, assume map[string]bool, why string) {
		be.assume = assume
		ok, detail, decided := be.mustReturnTrue(fd.Body.List)
		switch {
		case !decided:
			c.Unknown(key, fd.Pos(), "cannot evaluate emitCapture: %s", detail)
		default:
			c.Check(ok, key, fd.Pos(), "%s; but emitCapture %s", why, detail)
		}
	}
	run("emitCapture / the full program emits every capture", map[string]bool{slots + " == nil": true},
		"with quickCaptureSlots == nil the full program is written and every Capture node must be emitted")
	if failsOnOperand1 {
		run("emitCapture / a Capturemark that can fail is never dropped", map[string]bool{slots + " == nil": false, uncap + " == -1": false},
			"the interpreter's Capturemark clause fails when operand(1) != -1 and that group has no capture (and pops it otherwise), so the quick program must keep it whenever "+uncap+" != -1")
	} else {
		c.Unknown("emitCapture / a Capturemark that can fail is never dropped", fd.Pos(), "the interpreter's Capturemark clause has no failing path conditioned on operand(1) any more: re-derive this obligation")
	}
	run("emitCapture / a capture whose slot is in use is kept", map[string]bool{slots + " == nil": false, uncap + " == -1": true, capn + " >= 0": true, capn + " >= len(" + slots + ")": false, slots + "[" + capn + "]": true},
		"a slot marked in CaptureSlotInUse is read by the pattern itself (backreference, condition, balancing group)")
}

// ---------------------------------------------------------------------------
// R-LIVEOPS: every opcode that reads capture state keeps its group alive.
// The quick program drops the captures of groups nothing reads.  "Reads" is
// what the interpreter does: an opcode whose forward clause asks the match
// for isMatched / matchIndex / matchLength (Ref, Testref, Capturemark with a
// second operand) decides on the captured state of the group named by its
// operand.  captureSlotsInUse, which computes the groups to keep, has to have
// a case for each of those opcodes.
// ---------------------------------------------------------------------------

func RLiveOps(c *core.Ctx) {
	c.Rule("R-LIVEOPS", "every opcode whose forward interpreter clause consults the capture state of a group (calls Match.isMatched / matchIndex / matchLength) is a case label of the opcode switch in captureSlotsInUse, so the group it names is kept in the capture-free quick program", 3)
	p := c.P
	m := buildOpModel(c)
	syn := p.Pkg("syntax")
	fd, _ := p.DeclOf(p.LookupFunc("syntax", "captureSlotsInUse"))
	if !m.ok || fd == nil {
		c.Anchor("bytecode model / syntax.captureSlotsInUse")
		return
	}
	c.Visit("syntax.captureSlotsInUse")
	rinfo := p.Pkg("").TypesInfo
	readers := map[*types.Func]bool{}
	for _, n := range []string{"isMatched", "matchIndex", "matchLength"} {
		if f := p.LookupFunc("", "Match."+n); f != nil {
			readers[f] = true
		} else {
			c.Anchor("regexp2.Match." + n)
			return
		}
	}
	// labels of the switch in captureSlotsInUse
	labels := map[int64]bool{}
	ast.Inspect(fd.Body, func(x ast.Node) bool {
		if cc, ok := x.(*ast.CaseClause); ok {
			for _, e := range cc.List {
				if v, ok := core.ConstInt(syn.TypesInfo, e); ok {
					labels[v] = true
				}
			}
		}
		return true
	})
	n := 0
	for _, cl := range m.clauses {
		reads := false
		ast.Inspect(cl.cc, func(x ast.Node) bool {
			if call, ok := x.(*ast.CallExpr); ok && readers[core.Callee(rinfo, call)] {
				reads = true
			}
			return true
		})
		if !reads {
			continue
		}
		for _, l := range cl.labels {
			if l.back || l.back2 {
				continue
			}
			n++
			c.Check(labels[l.op], fmt.Sprintf("captureSlotsInUse / %s (reads capture state in the interpreter) keeps its group", m.opName[l.op]), cl.cc.Pos(),
				"the interpreter's %s clause asks whether / where the group named by its operand matched, but captureSlotsInUse has no case for it: a group referenced only by this instruction is compiled out of the quick program and the instruction then sees 'never matched'", m.opName[l.op])
		}
	}
	if n == 0 {
		c.Anchor("interpreter clauses that read capture state")
	}
}
