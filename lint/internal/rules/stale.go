package rules

import (
	"fmt"
	"go/token"
	"go/types"
	"sort"
	"strings"

	"golang.org/x/tools/go/ssa"

	"regexlint/internal/core"
)

// ---------------------------------------------------------------------------
// R-STALE: read-before-write on recycled interpreter state.
//
// A Runner (and the Match it owns) is taken from a pool with whatever the
// previous call left in it.  Starting at (*Runner).scan with every field STALE
// except a table of fields that persist by design, an interprocedural
// must-write / may-read-before-write analysis on SSA reports every field that
// can be read before the current call has written it.
//
// Access paths are rooted at a pointer parameter: "Runtextpos",
// "runmatch->textstart", "runmatch->Group.Capture.text", "" (the pointee
// itself, for *int / *[]int parameters).  "->" follows the pointer field
// runmatch; other pointer fields (re, code) lead to shared compiled state and
// are not followed.
// ---------------------------------------------------------------------------

type sEnt struct {
	path  string
	guard string // "" or "<boolfield>=true|false": access happens only under that guard
}

type sRead struct {
	ent   sEnt
	where string // function chain + position
}

type sSummary struct {
	// per pointer parameter index
	mw    map[int]map[sEnt]bool // must-written at every return
	mwNil map[int]map[sEnt]bool // must-written at every return whose last (error) result is the nil constant
	rbw   map[int][]sRead
}

type staleAnalyzer struct {
	c        *core.Ctx
	sums     map[*ssa.Function]*sSummary
	inprog   map[*ssa.Function]bool
	follow   map[string]bool // pointer fields to follow
	dynamic  map[ssa.CallInstruction][]*ssa.Function
	closures []string
}

type sPath struct {
	root int
	path string
}

func (a *staleAnalyzer) pathOf(fn *ssa.Function, v ssa.Value, depth int) (sPath, bool) {
	if depth > 8 {
		return sPath{}, false
	}
	switch x := v.(type) {
	case *ssa.Parameter:
		if _, ok := x.Type().Underlying().(*types.Pointer); !ok {
			return sPath{}, false
		}
		for i, p := range fn.Params {
			if p == x {
				return sPath{i, ""}, true
			}
		}
	case *ssa.FieldAddr:
		base, ok := a.pathOf(fn, x.X, depth+1)
		if !ok {
			return sPath{}, false
		}
		f := core.FieldVarOfAddr(x)
		if f == nil {
			return sPath{}, false
		}
		p := base.path
		if p != "" && !strings.HasSuffix(p, "->") {
			p += "."
		}
		return sPath{base.root, p + f.Name()}, true
	case *ssa.UnOp:
		if x.Op != token.MUL {
			return sPath{}, false
		}
		base, ok := a.pathOf(fn, x.X, depth+1)
		if !ok || base.path == "" {
			return sPath{}, false
		}
		last := base.path
		if i := strings.LastIndexAny(last, ".>"); i >= 0 {
			last = last[i+1:]
		}
		if a.follow[last] {
			if _, ok := x.Type().Underlying().(*types.Pointer); ok {
				return sPath{base.root, base.path + "->"}, true
			}
		}
	case *ssa.Phi:
		var first sPath
		for i, e := range x.Edges {
			if core.IsNilConst(e) {
				continue
			}
			p, ok := a.pathOf(fn, e, depth+1)
			if !ok {
				return sPath{}, false
			}
			if i > 0 && first != (sPath{}) && p != first {
				return sPath{}, false
			}
			first = p
		}
		if first != (sPath{}) || len(x.Edges) > 0 {
			return first, first.path != "" || first.root >= 0 && first != (sPath{})
		}
	}
	return sPath{}, false
}

// guardsAt returns guards (bool-field facts on root's fields) known at block b.
func (a *staleAnalyzer) guardsAt(fn *ssa.Function, b *ssa.BasicBlock) map[sPath]bool {
	out := map[sPath]bool{}
	for _, f := range core.FactsAtBlock(b) {
		cond, val := f.Cond, f.Val
		if u, ok := cond.(*ssa.UnOp); ok && u.Op == token.NOT {
			cond, val = u.X, !val
		}
		if ld, ok := cond.(*ssa.UnOp); ok && ld.Op == token.MUL {
			if p, ok := a.pathOf(fn, ld.X, 0); ok && p.path != "" {
				out[p] = val
			}
		}
	}
	return out
}

type wset map[sEnt]bool // must-written entries; key path may end in "*" (prefix wildcard)

func (w wset) clone() wset {
	n := make(wset, len(w))
	for k := range w {
		n[k] = true
	}
	return n
}

func (w wset) hasPath(p string) bool {
	if w[sEnt{p, ""}] {
		return true
	}
	for k := range w {
		if k.guard == "" && strings.HasSuffix(k.path, "*") && strings.HasPrefix(p, strings.TrimSuffix(k.path, "*")) {
			return true
		}
	}
	return false
}

func (w wset) has(e sEnt) bool {
	if w.hasPath(e.path) {
		return true
	}
	return e.guard != "" && w[e]
}

func meet(a, b wset) wset {
	if a == nil {
		return b.clone()
	}
	if b == nil {
		return a.clone()
	}
	n := wset{}
	for k := range a {
		if b.has(k) {
			n[k] = true
		}
	}
	for k := range b {
		if a.has(k) {
			n[k] = true
		}
	}
	return n
}

func wsetEq(a, b wset) bool {
	if (a == nil) != (b == nil) || len(a) != len(b) {
		return false
	}
	for k := range a {
		if !b[k] {
			return false
		}
	}
	return true
}

func guardStr(p sPath, v bool) string { return fmt.Sprintf("%s=%v", p.path, v) }

// analyze computes the summary of fn.  w0 is the entry must-written set per
// parameter root (nil for summaries).
func (a *staleAnalyzer) analyze(fn *ssa.Function, w0 map[int]wset) *sSummary {
	nParams := len(fn.Params)
	type state []wset // per root
	newState := func() state {
		s := make(state, nParams)
		for i := range s {
			s[i] = wset{}
			if w0 != nil && w0[i] != nil {
				s[i] = w0[i].clone()
			}
		}
		return s
	}
	in := make([]state, len(fn.Blocks))
	in[0] = newState()
	var rbw map[int][]sRead
	var retW []state
	var retNil []bool
	type pendingNil struct {
		root int
		ents []sEnt
	}
	transfer := func(b *ssa.BasicBlock, s state, record bool) (state, map[int][]pendingNil) {
		pend := map[ssa.Value][]pendingNil{}
		cur := make(state, nParams)
		for i := range s {
			cur[i] = s[i].clone()
		}
		guards := a.guardsAt(fn, b)
		read := func(p sPath, pos token.Pos, via string, calleeGuard string) {
			if p.path == "" && fn.Params[p.root].Type().Underlying().(*types.Pointer).Elem().Underlying() != nil {
				// reading the pointee of a scalar/slice pointer parameter: path ""
			}
			// guards known here that qualify this read
			ents := []sEnt{{p.path, ""}}
			for g, v := range guards {
				if g.root == p.root {
					ents = append(ents, sEnt{p.path, guardStr(g, v)})
				}
			}
			if calleeGuard != "" {
				// the callee only reads under calleeGuard; if we know the opposite here, the read cannot happen
				for g, v := range guards {
					if g.root == p.root {
						parts := strings.SplitN(calleeGuard, "=", 2)
						if parts[0] == g.path && parts[1] != fmt.Sprint(v) {
							return
						}
					}
				}
				ents = append(ents, sEnt{p.path, calleeGuard})
			}
			for _, e := range ents {
				if cur[p.root].has(e) {
					return
				}
			}
			if record {
				g := ""
				if len(ents) > 1 {
					g = ents[len(ents)-1].guard
				}
				where := fmt.Sprintf("%s@%s", core.SSAName(fn), a.c.P.Pos(pos))
				if via != "" {
					where += " -> " + via
				}
				rbw[p.root] = append(rbw[p.root], sRead{sEnt{p.path, g}, where})
			}
		}
		write := func(p sPath) {
			if len(guards) == 0 {
				cur[p.root][sEnt{p.path, ""}] = true
			} else {
				// a write under guards counts only under those guards, unless the same
				// block is reached on all paths (facts are dominance facts, so it is not)
				qualified := false
				for g, v := range guards {
					if g.root == p.root {
						cur[p.root][sEnt{p.path, guardStr(g, v)}] = true
						qualified = true
					}
				}
				if !qualified {
					cur[p.root][sEnt{p.path, ""}] = true
				}
			}
			last := p.path
			if i := strings.LastIndexAny(last, ".>"); i >= 0 {
				last = last[i+1:]
			}
			if a.follow[last] {
				cur[p.root][sEnt{p.path + "->*", ""}] = true
			}
		}
		for _, ins := range b.Instrs {
			switch x := ins.(type) {
			case *ssa.UnOp:
				if x.Op == token.MUL {
					if p, ok := a.pathOf(fn, x.X, 0); ok {
						read(p, x.Pos(), "", "")
					}
				}
			case *ssa.Store:
				if p, ok := a.pathOf(fn, x.Addr, 0); ok {
					write(p)
				}
			case *ssa.MakeClosure:
				for _, bnd := range x.Bindings {
					if _, ok := a.pathOf(fn, bnd, 0); ok && record {
						a.closures = append(a.closures, core.SSAName(fn))
					}
				}
			case ssa.CallInstruction:
				cc := x.Common()
				var targets []*ssa.Function
				if cal := cc.StaticCallee(); cal != nil {
					if cal.Blocks != nil && core.InModule(cal) {
						targets = []*ssa.Function{cal}
					}
				} else if ts, ok := a.dynamic[x]; ok {
					targets = ts
				}
				if len(targets) == 0 {
					continue
				}
				args := cc.Args
				// map argument paths
				type am struct {
					idx int
					p   sPath
				}
				var maps []am
				for i, arg := range args {
					if p, ok := a.pathOf(fn, arg, 0); ok {
						maps = append(maps, am{i, p})
					}
				}
				if len(maps) == 0 {
					continue
				}
				join := func(base, rel string) string {
					if rel == "" {
						return base
					}
					if base == "" || strings.HasSuffix(base, "->") {
						return base + rel
					}
					return base + "." + rel
				}
				// reads first (callee reads happen before its writes are visible to us)
				var mwAll map[int]wset
				for ti, t := range targets {
					sum := a.summary(t)
					for _, m := range maps {
						for _, r := range sum.rbw[m.idx] {
							g := r.ent.guard
							if g != "" && m.p.path != "" {
								g = "" // guard on a nested object: drop qualification (conservative: unguarded read)
							}
							read(sPath{m.p.root, join(m.p.path, r.ent.path)}, x.Pos(), r.where, g)
						}
					}
					// must-writes: intersection over targets
					tm := map[int]wset{}
					for _, m := range maps {
						ws := wset{}
						for e := range sum.mw[m.idx] {
							if e.guard != "" && m.p.path != "" {
								continue
							}
							ws[sEnt{join(m.p.path, e.path), e.guard}] = true
						}
						tm[m.idx] = ws
					}
					if ti == 0 {
						mwAll = tm
					} else {
						for k := range mwAll {
							mwAll[k] = meet(mwAll[k], tm[k])
						}
					}
				}
				for _, m := range maps {
					for e := range mwAll[m.idx] {
						if e.guard == "" {
							write(sPath{m.p.root, e.path})
						} else {
							cur[m.p.root][e] = true
						}
					}
				}
				// entries additionally written when the callee returns a nil error
				if v, ok := x.(ssa.Value); ok && len(targets) == 1 {
					sum := a.summary(targets[0])
					for _, m := range maps {
						var ents []sEnt
						for e := range sum.mwNil[m.idx] {
							if e.guard != "" && m.p.path != "" {
								continue
							}
							ents = append(ents, sEnt{join(m.p.path, e.path), e.guard})
						}
						if len(ents) > 0 {
							pend[v] = append(pend[v], pendingNil{m.p.root, ents})
						}
					}
				}
			}
		}
		// `if err != nil` on a call result of this block: the nil edge gets the nil-error writes
		extra := map[int][]pendingNil{}
		if len(b.Instrs) > 0 {
			if ifi, ok := b.Instrs[len(b.Instrs)-1].(*ssa.If); ok {
				if bin, ok := ifi.Cond.(*ssa.BinOp); ok && (bin.Op == token.NEQ || bin.Op == token.EQL) {
					v := bin.X
					if core.IsNilConst(v) {
						v = bin.Y
					}
					if ex, ok := v.(*ssa.Extract); ok {
						v = ex.Tuple
					}
					if ps, ok := pend[v]; ok {
						nilEdge := 1
						if bin.Op == token.EQL {
							nilEdge = 0
						}
						extra[nilEdge] = ps
					}
				}
			}
		}
		return cur, extra
	}
	// fixpoint
	work := []int{0}
	inWork := map[int]bool{0: true}
	for iter := 0; len(work) > 0 && iter < 100000; iter++ {
		bi := work[0]
		work = work[1:]
		inWork[bi] = false
		if in[bi] == nil {
			continue
		}
		out0, extra := transfer(fn.Blocks[bi], in[bi], false)
		for si, s := range fn.Blocks[bi].Succs {
			out := out0
			if ps, ok := extra[si]; ok {
				out = make(state, nParams)
				for i := range out0 {
					out[i] = out0[i].clone()
				}
				for _, pn := range ps {
					for _, e := range pn.ents {
						out[pn.root][e] = true
					}
				}
			}
			var ns state
			if in[s.Index] == nil {
				ns = make(state, nParams)
				for i := range out {
					ns[i] = out[i].clone()
				}
			} else {
				ns = make(state, nParams)
				for i := range out {
					ns[i] = meet(in[s.Index][i], out[i])
				}
				same := true
				for i := range ns {
					if !wsetEq(ns[i], in[s.Index][i]) {
						same = false
					}
				}
				if same {
					continue
				}
			}
			in[s.Index] = ns
			if !inWork[s.Index] {
				inWork[s.Index] = true
				work = append(work, s.Index)
			}
		}
	}
	// final pass
	rbw = map[int][]sRead{}
	for bi, b := range fn.Blocks {
		if in[bi] == nil {
			continue
		}
		out, _ := transfer(b, in[bi], true)
		if len(b.Instrs) > 0 {
			if ret, ok := b.Instrs[len(b.Instrs)-1].(*ssa.Return); ok {
				isNilRet := len(ret.Results) > 0 && core.IsNilConst(ret.Results[len(ret.Results)-1]) && ret.Results[len(ret.Results)-1].Type().String() == "error"
				retNil = append(retNil, isNilRet)
				// guards known at the return make opposite-guard entries vacuous
				guards := a.guardsAt(fn, b)
				for g, v := range guards {
					out[g.root][sEnt{"*", guardStr(g, !v)}] = true
				}
				retW = append(retW, out)
			}
		}
	}
	sum := &sSummary{mw: map[int]map[sEnt]bool{}, mwNil: map[int]map[sEnt]bool{}, rbw: rbw}
	for i := 0; i < nParams; i++ {
		var acc, accNil wset
		for ri, rs := range retW {
			w := rs[i]
			// expand vacuous wildcards: for entries e in other returns with guard g where this return has {"*", g}
			acc = meetVacuous(acc, w)
			if retNil[ri] {
				accNil = meetVacuous(accNil, w)
			}
		}
		if accNil != nil {
			for e := range accNil {
				if e.path == "*" && e.guard != "" {
					delete(accNil, e)
				}
			}
			sum.mwNil[i] = accNil
		}
		if acc == nil {
			acc = wset{}
		}
		// drop the vacuous markers
		for e := range acc {
			if e.path == "*" && e.guard != "" {
				delete(acc, e)
			}
		}
		sum.mw[i] = acc
	}
	return sum
}

// meetVacuous is meet() where an entry {p, g} is also considered present in a
// set that contains the marker {"*", g} (that return path runs under the
// opposite guard, so "written whenever g" holds vacuously).
func meetVacuous(a, b wset) wset {
	if a == nil {
		return b.clone()
	}
	n := wset{}
	hasV := func(w wset, e sEnt) bool {
		return w.has(e) || (e.guard != "" && w[sEnt{"*", e.guard}])
	}
	for k := range a {
		if hasV(b, k) {
			n[k] = true
		}
	}
	for k := range b {
		if hasV(a, k) {
			n[k] = true
		}
	}
	return n
}

func (a *staleAnalyzer) summary(fn *ssa.Function) *sSummary {
	if s, ok := a.sums[fn]; ok {
		return s
	}
	if a.inprog[fn] {
		return &sSummary{mw: map[int]map[sEnt]bool{}, mwNil: map[int]map[sEnt]bool{}, rbw: map[int][]sRead{}}
	}
	a.inprog[fn] = true
	s := a.analyze(fn, nil)
	a.inprog[fn] = false
	a.sums[fn] = s
	return s
}

// persistent fields of Runner: not reset per call, by design.
var stalePersistent = map[string]string{
	"re":            "the owning Regexp; set once when the pool creates the Runner",
	"code":          "restored by putRunner (R-RESTORE)",
	"runtrack":      "capacity only; contents above Runtrackpos are dead and Runtrackpos is re-established by initMatch on both branches",
	"runstack":      "capacity only; as runtrack",
	"runcrawl":      "capacity only; as runtrack",
	"runtrackcount": "derived from code.TrackCount when the stacks are first allocated",
	"runmatch":      "pointer: nil -> new Match, else reset() (the pointee's fields are tracked separately as runmatch->…)",
}

// constant after construction (Match): never stored outside the constructors.
var staleConstAfterNew = map[string]string{
	"runmatch->regex":      "set by newMatch only",
	"runmatch->matches":    "slice header set by newMatch only; rows beyond matchcount[i] are dead",
	"runmatch->matchcount": "slice header set by newMatch only; every element zeroed by reset (checked)",
	"runmatch->sparseCaps": "set by newMatchSparse only",
}

var staleAccepted = map[string]string{
	"codepos": "goTo compares newpos with the previous call's codepos before writing it; this only decides whether ensureStorage runs, which is idempotent",
}

func RStale(c *core.Ctx) {
	c.Rule("R-STALE", "starting at (*Runner).scan with every Runner / owned-Match field stale except the persistent table, no field can be read before the current call has written it (interprocedural must-write / may-read-before-write on SSA; dynamic calls resolved by the VTA call graph)", 12)
	p := c.P
	scanFn := p.SSAFunc(p.LookupFunc("", "Runner.scan"))
	if scanFn == nil {
		c.Anchor("regexp2.(*Runner).scan")
		return
	}
	a := &staleAnalyzer{c: c, sums: map[*ssa.Function]*sSummary{}, inprog: map[*ssa.Function]bool{}, follow: map[string]bool{"runmatch": true}, dynamic: map[ssa.CallInstruction][]*ssa.Function{}}
	// dynamic call targets from the call graph (module functions only)
	cg := p.CallGraph()
	for fn, node := range cg.Nodes {
		if fn == nil || !core.InModule(fn) {
			continue
		}
		for _, e := range node.Out {
			if e.Site == nil || e.Site.Common().StaticCallee() != nil {
				continue
			}
			if e.Callee.Func != nil && core.InModule(e.Callee.Func) && e.Callee.Func.Blocks != nil {
				a.dynamic[e.Site] = append(a.dynamic[e.Site], e.Callee.Func)
			}
		}
	}
	for site, ts := range a.dynamic {
		sort.Slice(ts, func(i, j int) bool { return ts[i].String() < ts[j].String() })
		a.dynamic[site] = ts
	}
	w0 := wset{}
	runnerT, _ := p.LookupObj("", "Runner").(*types.TypeName)
	if runnerT == nil {
		c.Anchor("regexp2.Runner")
		return
	}
	st := runnerT.Type().Underlying().(*types.Struct)
	fields := map[string]bool{}
	for i := 0; i < st.NumFields(); i++ {
		fields[st.Field(i).Name()] = true
	}
	for f, reason := range stalePersistent {
		if !fields[f] {
			c.Anchor("persistent Runner field " + f)
			continue
		}
		w0[sEnt{f, ""}] = true
		_ = reason
	}
	sum := a.analyze(scanFn, map[int]wset{0: w0})
	// dynamic calls in scan must have resolved
	for _, b := range scanFn.Blocks {
		for _, ins := range b.Instrs {
			if ci, ok := ins.(ssa.CallInstruction); ok && ci.Common().StaticCallee() == nil && !ci.Common().IsInvoke() {
				if _, isBuiltin := ci.Common().Value.(*ssa.Builtin); isBuiltin {
					continue
				}
				ts := a.dynamic[ci]
				var names []string
				for _, t := range ts {
					names = append(names, core.SSAName(t))
				}
				c.Check(len(ts) > 0, fmt.Sprintf("scan / dynamic call %s resolved", ci.Common().Value.Name()), ci.Pos(), "targets in module: %s", strings.Join(names, ", "))
			}
		}
	}
	for fn := range a.sums {
		c.Visit(core.SSAName(fn))
	}
	c.Visit(core.SSAName(scanFn))
	// every Runner field is an obligation
	byPath := map[string][]sRead{}
	for _, r := range sum.rbw[0] {
		byPath[r.ent.path] = append(byPath[r.ent.path], r)
	}
	var names []string
	for f := range fields {
		names = append(names, f)
	}
	sort.Strings(names)
	constCheck := constantAfterNew(c)
	for _, f := range names {
		key := "Runner." + f
		if reason, ok := stalePersistent[f]; ok {
			c.OK(key+" (persistent)", token.NoPos, "%s", reason)
			continue
		}
		rs := byPath[f]
		if len(rs) == 0 {
			c.OK(key, token.NoPos, "written before every read reachable from scan")
			continue
		}
		if reason, ok := staleAccepted[f]; ok {
			c.OK(key+" (accepted stale read)", token.NoPos, "%s; read at %s", reason, rs[0].where)
			continue
		}
		c.Bad(key, token.NoPos, "can be read before this call writes it: %s (guard %q) — a recycled Runner leaks the previous call's value", rs[0].where, rs[0].ent.guard)
	}
	// Match fields reached through runmatch
	var mpaths []string
	for pth := range byPath {
		if strings.HasPrefix(pth, "runmatch->") {
			mpaths = append(mpaths, pth)
		}
	}
	sort.Strings(mpaths)
	for _, pth := range mpaths {
		rs := byPath[pth]
		if reason, ok := staleConstAfterNew[pth]; ok {
			c.Check(constCheck[strings.TrimPrefix(pth, "runmatch->")], "Match."+strings.TrimPrefix(pth, "runmatch->")+" (constant after construction)", token.NoPos, "%s; read at %s", reason, rs[0].where)
			continue
		}
		c.Bad("Match."+strings.TrimPrefix(pth, "runmatch->"), token.NoPos, "field of the runner-owned Match can be read before reset()/construction establishes it: %s", rs[0].where)
	}
	for _, cl := range a.closures {
		c.Unknown("closure capturing tracked state in "+cl, token.NoPos, "closures over the Runner are outside the analysis")
	}
	// reset() zeroes every matchcount element and writes text, textstart, balancing
	resetFn := p.SSAFunc(p.LookupFunc("", "Match.reset"))
	if resetFn == nil {
		c.Anchor("regexp2.(*Match).reset")
	} else {
		rs := a.summary(resetFn)
		for _, need := range []string{"Group.Capture.text", "textstart", "balancing"} {
			c.Check(rs.mw[0][sEnt{need, ""}], "Match.reset / writes "+need, resetFn.Pos(), "reset must re-establish %s on every path", need)
		}
		c.Check(zeroesAll(resetFn, "matchcount"), "Match.reset / zeroes every matchcount element", resetFn.Pos(), "a loop over len(m.matchcount) storing 0 (or clear(m.matchcount))")
	}
	// guard fields are written once, in scan's prologue
	for _, g := range []string{"ignoreTimeout"} {
		n := 0
		for _, fn := range p.ModuleFuncs() {
			for _, b := range fn.Blocks {
				for _, ins := range b.Instrs {
					if stI, ok := ins.(*ssa.Store); ok {
						if fv := core.FieldVarOfAddr(stI.Addr); fv != nil && fv.Name() == g && fv == p.LookupField("", "Runner", g) {
							n++
							c.Check(fn == scanFn && b.Index == 0, "Runner."+g+" / written only in scan's first block", stI.Pos(), "guard field correlating deadline writes and reads must not change during a call")
						}
					}
				}
			}
		}
		if n == 0 {
			c.Anchor("store to Runner." + g)
		}
	}
}

// constantAfterNew: for each Match field name, true iff it is stored only in
// newMatch / newMatchSparse.
func constantAfterNew(c *core.Ctx) map[string]bool {
	p := c.P
	res := map[string]bool{}
	matchT, _ := p.LookupObj("", "Match").(*types.TypeName)
	if matchT == nil {
		return res
	}
	st := matchT.Type().Underlying().(*types.Struct)
	bad := map[*types.Var]bool{}
	for _, fn := range p.ModuleFuncs() {
		name := core.SSAName(fn)
		ctor := name == "regexp2.newMatch" || name == "regexp2.newMatchSparse"
		for _, b := range fn.Blocks {
			for _, ins := range b.Instrs {
				if s, ok := ins.(*ssa.Store); ok {
					if fv := core.FieldVarOfAddr(s.Addr); fv != nil && !ctor {
						bad[fv] = true
					}
				}
			}
		}
	}
	for i := 0; i < st.NumFields(); i++ {
		res[st.Field(i).Name()] = !bad[st.Field(i)]
	}
	return res
}

// zeroesAll: fn contains either clear(x.field) or a store of constant 0 into
// x.field[i] inside a loop (a block that is its own ancestor).
func zeroesAll(fn *ssa.Function, field string) bool {
	for _, b := range fn.Blocks {
		for _, ins := range b.Instrs {
			switch x := ins.(type) {
			case *ssa.Call:
				if bi, ok := x.Call.Value.(*ssa.Builtin); ok && bi.Name() == "clear" {
					return true
				}
			case *ssa.Store:
				ia, ok := x.Addr.(*ssa.IndexAddr)
				if !ok {
					continue
				}
				ld, ok := ia.X.(*ssa.UnOp)
				if !ok {
					continue
				}
				fv := core.FieldVarOfAddr(ld.X)
				if fv == nil || fv.Name() != field {
					continue
				}
				if k, ok := core.IntConst(x.Val); ok && k == 0 && inLoop(b) && loopOnEveryPath(fn, b) {
					return true
				}
			}
		}
	}
	return false
}

// loopOnEveryPath: some header h of a loop containing b (h dominates b and b
// reaches h) dominates every return of fn, i.e. no path leaves the function
// without going through the loop's test.
func loopOnEveryPath(fn *ssa.Function, b *ssa.BasicBlock) bool {
	reach := map[*ssa.BasicBlock]bool{}
	stack := append([]*ssa.BasicBlock(nil), b.Succs...)
	for len(stack) > 0 {
		x := stack[len(stack)-1]
		stack = stack[:len(stack)-1]
		if reach[x] {
			continue
		}
		reach[x] = true
		stack = append(stack, x.Succs...)
	}
	for _, h := range fn.Blocks {
		if !h.Dominates(b) || !reach[h] {
			continue
		}
		all := true
		for _, r := range fn.Blocks {
			if _, ok := r.Instrs[len(r.Instrs)-1].(*ssa.Return); ok && !h.Dominates(r) {
				all = false
			}
		}
		if all {
			return true
		}
	}
	return false
}

func inLoop(b *ssa.BasicBlock) bool {
	seen := map[*ssa.BasicBlock]bool{}
	var stack []*ssa.BasicBlock
	stack = append(stack, b.Succs...)
	for len(stack) > 0 {
		x := stack[len(stack)-1]
		stack = stack[:len(stack)-1]
		if x == b {
			return true
		}
		if seen[x] {
			continue
		}
		seen[x] = true
		stack = append(stack, x.Succs...)
	}
	return false
}

// ---------------------------------------------------------------------------
// R-RESTORE, R-DETACH, R-BUFLEN, R-CACHEKEY
// ---------------------------------------------------------------------------

func RPool(c *core.Ctx) {
	p := c.P
	funcs := p.ModuleFuncs()
	runnerCode := p.LookupField("", "Runner", "code")
	reCode := p.LookupField("", "Regexp", "code")
	reQuick := p.LookupField("", "Regexp", "quickCode")
	runmatch := p.LookupField("", "Runner", "runmatch")
	putRunner := p.SSAFunc(p.LookupFunc("", "Regexp.putRunner"))
	if runnerCode == nil || reCode == nil || reQuick == nil || runmatch == nil || putRunner == nil {
		c.Anchor("Runner.code / Regexp.code / Regexp.quickCode / Runner.runmatch / Regexp.putRunner")
		return
	}

	c.Rule("R-RESTORE", "putRunner stores re.code into the runner's code on every path; any other function that stores Runner.code stores re.quickCode and returns the runner through a deferred putRunner (or is the pool constructor / re.code itself)", 4)
	// (1) putRunner must-write
	found := false
	for _, b := range putRunner.Blocks {
		for _, ins := range b.Instrs {
			if st, ok := ins.(*ssa.Store); ok && core.FieldVarOfAddr(st.Addr) == runnerCode {
				if _, ok := core.LoadOfField(st.Val, reCode); ok && b.Dominates(exitBlockOf(putRunner)) {
					found = true
				}
			}
		}
	}
	c.Check(found, "regexp2.(*Regexp).putRunner / restores code = re.code on every path", putRunner.Pos(), "a runner returned to the pool must carry the full program again (callers switch it to the capture-free quick program)")
	// (2) other writers
	for _, fn := range funcs {
		if fn == putRunner {
			continue
		}
		name := core.SSAName(fn)
		for _, b := range fn.Blocks {
			for _, ins := range b.Instrs {
				st, ok := ins.(*ssa.Store)
				if !ok || core.FieldVarOfAddr(st.Addr) != runnerCode {
					continue
				}
				_, isFull := core.LoadOfField(st.Val, reCode)
				_, isQuick := core.LoadOfField(st.Val, reQuick)
				key := name + " / store to Runner.code"
				if isFull {
					c.OK(key, st.Pos(), "stores the full program")
					continue
				}
				if !isQuick {
					c.Bad(key, st.Pos(), "stores something other than re.code / re.quickCode")
					continue
				}
				// must reach putRunner via defer
				okDefer := defersCall(fn, putRunner)
				if !okDefer {
					// a helper that switches the program of a runner it was handed: every caller must release it
					if fa, isFA := st.Addr.(*ssa.FieldAddr); isFA {
						if _, isParam := fa.X.(*ssa.Parameter); isParam {
							okDefer = callersAllDefer(p, fn, putRunner, 2)
						}
					}
				}
				c.Check(okDefer, key, st.Pos(), "selecting the quick program requires a deferred putRunner in the same function — or, for a helper given the runner, in every caller — (which restores the full program)")
			}
		}
	}

	c.Rule("R-DETACH", "on the non-quick arm of tidyMatch the runner gives up its Match (runmatch = nil) before returning it, so a Match handed to the user is never reset under them", 1)
	tidy := p.SSAFunc(p.LookupFunc("", "Runner.tidyMatch"))
	if tidy == nil {
		c.Anchor("regexp2.(*Runner).tidyMatch")
	} else {
		c.Visit(core.SSAName(tidy))
		quick := tidy.Params[1]
		okAll, n := true, 0
		for _, b := range tidy.Blocks {
			ret, ok := b.Instrs[len(b.Instrs)-1].(*ssa.Return)
			if !ok {
				continue
			}
			// is this return under quick == false ?
			nonQuick := false
			for _, f := range core.FactsAtBlock(b) {
				cond, val := f.Cond, f.Val
				if u, ok := cond.(*ssa.UnOp); ok && u.Op == token.NOT {
					cond, val = u.X, !val
				}
				if cond == quick && !val {
					nonQuick = true
				}
			}
			if !nonQuick {
				continue
			}
			n++
			// the returned value must be a load of runmatch, and a store of nil to runmatch must dominate the return
			_, isLoad := core.LoadOfField(ret.Results[0], runmatch)
			cleared := false
			for _, d := range tidy.Blocks {
				if !d.Dominates(b) {
					continue
				}
				for _, ins := range d.Instrs {
					if st, ok := ins.(*ssa.Store); ok && core.FieldVarOfAddr(st.Addr) == runmatch && core.IsNilConst(st.Val) {
						cleared = true
					}
				}
			}
			if !isLoad || !cleared {
				okAll = false
			}
		}
		c.Check(okAll && n > 0, "regexp2.(*Runner).tidyMatch / detaches the handed-out Match", tidy.Pos(), "%d non-quick return(s); each must be dominated by r.runmatch = nil", n)
	}

	c.Rule("R-BUFLEN", "a pooled rune buffer is handed on re-sliced to exactly the number of runes decoded into it (buf[:n] with n the index of the element store), so runes left by a longer earlier input are outside it", 2)
	for _, name := range []string{"Runner.decodeString", "Runner.decodeStringWithStart"} {
		fn := p.SSAFunc(p.LookupFunc("", name))
		if fn == nil {
			c.Anchor("regexp2." + name)
			continue
		}
		c.Visit(core.SSAName(fn))
		ok := false
		for _, b := range fn.Blocks {
			ret, isRet := b.Instrs[len(b.Instrs)-1].(*ssa.Return)
			if !isRet {
				continue
			}
			sl, isSlice := ret.Results[0].(*ssa.Slice)
			if !isSlice || sl.High == nil || sl.Low != nil {
				ok = false
				break
			}
			// High must be the index value of the element store into the same buffer
			match := false
			for _, bb := range fn.Blocks {
				for _, ins := range bb.Instrs {
					if st, isSt := ins.(*ssa.Store); isSt {
						if ia, isIA := st.Addr.(*ssa.IndexAddr); isIA && ia.X == sl.X && ia.Index == sl.High {
							match = true
						}
					}
				}
			}
			ok = match
		}
		c.Check(ok, "regexp2."+name+" / returns buf[:n]", fn.Pos(), "the returned slice's upper bound is the decode counter used to index the element stores")
	}

	c.Rule("R-CACHEKEY", "the replacement cache belongs to one Regexp (created only in initCaches), is keyed by the whole replacement string, and the parsed data is built from that same Regexp's caps/capsize/capnames/options", 3)
	grd := p.SSAFunc(p.LookupFunc("", "Regexp.getReplacerData"))
	cacheField := p.LookupField("", "Regexp", "replaceCache")
	if grd == nil || cacheField == nil {
		c.Anchor("Regexp.getReplacerData / Regexp.replaceCache")
		return
	}
	c.Visit(core.SSAName(grd))
	re, repl := grd.Params[0], grd.Params[1]
	keyOK, buildOK, n := true, false, 0
	for _, b := range grd.Blocks {
		for _, ins := range b.Instrs {
			call, ok := ins.(*ssa.Call)
			if !ok {
				continue
			}
			cal := call.Call.StaticCallee()
			if cal == nil {
				continue
			}
			switch core.SSAName(cal) {
			case "regexp2.(*replacerDataCache).get", "regexp2.(*replacerDataCache).add":
				n++
				if call.Call.Args[1] != repl {
					keyOK = false
				}
				// receiver is re.replaceCache of this re
				if fa, ok := core.LoadOfField(call.Call.Args[0], cacheField); !ok || fa.X != re {
					keyOK = false
				}
			case "syntax.NewReplacerData":
				buildOK = call.Call.Args[0] == repl
				want := []string{"caps", "capsize", "capnames", "options"}
				for i, w := range want {
					arg := call.Call.Args[i+1]
					if cv, ok := arg.(*ssa.Convert); ok {
						arg = cv.X
					}
					if cv, ok := arg.(*ssa.ChangeType); ok {
						arg = cv.X
					}
					f := p.LookupField("", "Regexp", w)
					if fa, ok := core.LoadOfField(arg, f); !ok || fa.X != re {
						buildOK = false
					}
				}
			}
		}
	}
	c.Check(keyOK && n >= 2, "regexp2.(*Regexp).getReplacerData / cache keyed by the whole replacement on re's own cache", grd.Pos(), "%d cache calls", n)
	c.Check(buildOK, "regexp2.(*Regexp).getReplacerData / data built from the same Regexp's capture tables and options", grd.Pos(), "NewReplacerData(replacement, re.caps, re.capsize, re.capnames, re.options)")
	for _, fn := range funcs {
		for _, b := range fn.Blocks {
			for _, ins := range b.Instrs {
				if st, ok := ins.(*ssa.Store); ok && core.FieldVarOfAddr(st.Addr) == cacheField {
					name := core.SSAName(fn)
					fresh := false
					if call, ok := st.Val.(*ssa.Call); ok && call.Call.StaticCallee() != nil && core.SSAName(call.Call.StaticCallee()) == "regexp2.newReplacerDataCache" {
						fresh = true
					}
					c.Check(name == "regexp2.(*Regexp).initCaches" && fresh, name+" / store to Regexp.replaceCache", st.Pos(), "a Regexp's replacement cache must be a fresh one created in initCaches (never shared between Regexps)")
				}
			}
		}
	}
}

// exitBlockOf returns the block holding the (single) return of fn, or the
// first return block.
func exitBlockOf(fn *ssa.Function) *ssa.BasicBlock {
	for _, b := range fn.Blocks {
		if _, ok := b.Instrs[len(b.Instrs)-1].(*ssa.Return); ok {
			return b
		}
	}
	return fn.Blocks[len(fn.Blocks)-1]
}

// defersCall reports whether fn defers a call to target, directly or inside a
// deferred closure.
func defersCall(fn, target *ssa.Function) bool {
	return defersReach(fn, func(f *ssa.Function) bool { return f == target })
}

// defersReach: some `defer` of fn runs a function (named, method value or
// closure) that calls a function accepted by match — directly or through
// helpers of the module (three levels): `defer re.release(r, buf)` with release
// calling putRunner is the same release as `defer re.putRunner(r)`.
func defersReach(fn *ssa.Function, match func(*ssa.Function) bool) bool {
	for _, b := range fn.Blocks {
		for _, ins := range b.Instrs {
			d, ok := ins.(*ssa.Defer)
			if !ok {
				continue
			}
			if cal := d.Call.StaticCallee(); cal != nil {
				if match(cal) || reachesCall(cal, match, 3, map[*ssa.Function]bool{}) {
					return true
				}
			}
			if mc, ok := d.Call.Value.(*ssa.MakeClosure); ok {
				if cl, ok := mc.Fn.(*ssa.Function); ok && reachesCall(cl, match, 3, map[*ssa.Function]bool{}) {
					return true
				}
			}
		}
	}
	return false
}

func reachesCall(fn *ssa.Function, match func(*ssa.Function) bool, depth int, seen map[*ssa.Function]bool) bool {
	if fn == nil || seen[fn] || depth < 0 {
		return false
	}
	seen[fn] = true
	for _, b := range fn.Blocks {
		for _, ins := range b.Instrs {
			ci, ok := ins.(ssa.CallInstruction)
			if !ok {
				continue
			}
			cal := ci.Common().StaticCallee()
			if cal == nil {
				continue
			}
			if match(cal) {
				return true
			}
			if core.InModule(cal) && reachesCall(cal, match, depth-1, seen) {
				return true
			}
		}
	}
	return false
}

// callersAllDefer: fn is a helper working on a runner it was given; the
// obligation "a deferred putRunner follows" then rests on every caller.
func callersAllDefer(p *core.Program, fn, target *ssa.Function, depth int) bool {
	node := p.CallGraph().Nodes[fn]
	if node == nil || len(node.In) == 0 || depth < 0 {
		return false
	}
	for _, e := range node.In {
		cf := e.Caller.Func
		if cf == nil || !core.InModule(cf) {
			return false
		}
		if defersCall(cf, target) {
			continue
		}
		if !callersAllDefer(p, cf, target, depth-1) {
			return false
		}
	}
	return true
}

func callsFn(fn, target *ssa.Function) bool {
	for _, b := range fn.Blocks {
		for _, ins := range b.Instrs {
			if ci, ok := ins.(ssa.CallInstruction); ok && ci.Common().StaticCallee() == target {
				return true
			}
		}
	}
	return false
}
