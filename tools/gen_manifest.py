#!/usr/bin/env python3
"""Regenerates /verif/MANIFEST.json from the table below and validates it.
Claimed properties are those regexlint lists (`bin/regexlint -list`)."""
import json, subprocess, sys, os
here = os.path.dirname(os.path.dirname(os.path.abspath(__file__)))

CLAIMS = {
 "C01": dict(
   technique="static analysis: constant evaluation + per-clause path enumeration over go/ast of the opcode tables, writer emit sites and interpreter switch (table agreement, frame typestate, stack-effect balance)",
   text="Decides, exhaustively over the finite set of opcodes / interpreter clauses / writer emit sites found in the current source, that the bytecode contract between writer, size/backtrack tables and interpreter is coherent (R-OP1..5) and that every opcode's forward/Back/Back2 clauses agree on backtracking-frame shape and grouping-stack depth (R-OP3, R-STK). This is a necessary condition of C01: an incoherent contract desynchronises every pattern using the opcode. It does NOT decide that the search is leftmost / priority-ordered; that equality over all patterns x inputs is out of reach of static analysis.",
   note="Trusted: go/types constant evaluation; the path enumerator treats loops as 0/1 iterations; semantic meaning of each handler is not examined.",
   ref="DESIGN.md §3 R-OP, §4 C01"),
 "C10": dict(
   technique="static analysis: abstract interpretation (interval + difference bounds) over go/cfg of the pattern parser; who-may-write / who-may-index checks; panic-site classification with call-graph reachability",
   text="Decides that every read of the pattern by the parser is dominated on every control-flow path by a length test proving the index in range (R-GUARD, all parser functions, inferred helper preconditions demanded at call sites), so no malformed pattern can make the parser index out of range; plus classification of every explicit panic site and fatal default (R-PANIC, R-FATAL) and nil-tests before use in the adapter (R-NILMATCH). Necessary for C10; it does NOT decide panics from index arithmetic outside the parser (class canonicaliser, finders, interpreter) nor termination.",
   note="Trusted: the abstract domain's transfer functions for the nine position primitives (their bodies are checked against the modelled effect); 11 sites outside the domain are frozen, individually argued exceptions listed in the rule source.",
   ref="DESIGN.md §4 C10"),
 "C13": dict(
   technique="static analysis: SSA value-flow (clamp dominance on phi edges, forward slice of the limit value, structural equality of copy offset and stack-pointer shift), who-may-write/read, error-result discipline, per-clause/per-emit-path push budget",
   text="Decides the static ingredients of the stack-limit property on every path of the code: the backtracking stack is allocated only in two functions and every allocation length is provably clamped by the limit (R-LIM1); the limit value influences nothing but sizes, bounds, branch conditions and growTrack's bool, and growth keeps end-relative positions (R-LIM2); every capacity/jump error is propagated unchanged and the sentinel has one producer (R-LIM3); no clause pushes more than the reserve multiplier K and every emitFragment path pays for what it can push (R-LIM4). It does NOT prove the runtime invariant that the reserve suffices between two capacity checks, nor result equality with the limit disabled.",
   note="Trusted: go/ssa construction; K is read from ensureStorage; loops in clauses are enumerated as 0/1 iterations.",
   ref="DESIGN.md §4 C13"),
 "C12": dict(
   technique="static analysis: interprocedural must-write / may-read-before-write dataflow on go/ssa over the pooled Runner and its Match (call graph for func-valued fields), plus pairing/ordering checks on the pool return path",
   text="Decides that no field of the recycled interpreter state (every field of Runner, and of the Match it owns) can be read before the current call has written it, on any path from (*Runner).scan through all reachable callees (R-STALE; persistent-by-design fields are a frozen table with reasons, some of which are themselves checked), that putRunner restores the full program, that a handed-out Match is detached, that pooled buffers are re-sliced to the decoded length and that the replacement cache is per-Regexp and keyed by the whole replacement (R-RESTORE/DETACH/BUFLEN/CACHEKEY). A stale read is how history leaks into a result, so this is a necessary condition of C12; equality with a freshly compiled Regexp as such is NOT decided (slice contents beyond the position markers are argued dead, not analysed).",
   note="Trusted: go/ssa + VTA resolution of the three func-valued fields; element-level contents of the stacks and capture arrays are outside the analysis; error-return correlation is modelled only for `if err != nil` directly on a call result.",
   ref="DESIGN.md §4 C12"),
 "C11": dict(
   technique="static analysis: whole-program shared-derived taint on go/ssa over the VTA call graph (effect confinement), lockset dataflow, dominance of monotonic-update guards, ownership/typestate of pooled objects",
   text="Decides data-race freedom of the shared state reachable at match time, by construction of the code: no store/map-update/append/copy/delete reachable from any exported method of Regexp, compat.Regexp, Match, Group or Capture targets memory derived from a shared Regexp, Code or global, except structures shown to be mutex- or atomic-protected (R-FX); every access to those structures holds the right lock in the right mode, including writes through loaded values such as list.MoveToFront (R-LOCK); the clock end time is only raised under its lock (R-CLOCKEND); pooled runners and buffers have one owner and never leak into a returned Match (R-OWN). Race freedom is necessary for C11; that each concurrent call returns what it would return alone is NOT decided beyond this plus C12.",
   note="Trusted: context-insensitive taint (a helper called with both shared and fresh arguments is treated as shared); a whitelist of read-only external callees; configuration entry points (SetTimeoutCheckPeriod, assigning MatchTimeout, RegisterEngine, UnmarshalText) are outside 'using a compiled Regexp'.",
   ref="DESIGN.md §4 C11"),
 "C02": dict(
   technique="static analysis: call-graph reachability / who-may-call, SSA def-use on the quick match value, dominance of direction guards, interprocedural taint from the prefix-filter result",
   text="Decides the structural preconditions for all entry points to agree: every matching entry point (12 regexp2 methods and every Find*/Match* adapter method) reaches the single scan funnel and the interpreter is called only from it (R-FUNNEL); wherever the capture-free quick program can be active the returned match is only nil-tested or read for position, and run() selects it only under quick && textInfo==nil (R-QUICK); the liveness scan behind the quick program compares masked opcodes (R-MASK); the left-to-right byte filter is never consulted or built for right-to-left programs (R-RTLFILTER); a filter candidate never becomes the \\G origin unless filters are refused for programs containing \\G (R-ORIGIN). It does NOT decide that scan returns equal results for equal arguments, the byte/rune conversion (C08) or the Replace/Split folds (C09).",
   note="Trusted: VTA call graph; the taint treats decodeStringWithStart/getRunesAndStart as start-preserving helpers (call-site sensitive); default start positions per entry point are not checked (a sound rule could not be separated from the invalid-offset fallbacks).",
   ref="DESIGN.md §4 C02"),
 "C03": dict(
   technique="static analysis: interprocedural taint (filter candidate -> \\G origin), producer/consumer field agreement over the find-mode switch statements (AST + constant evaluation), SSA use-shape of the minimum-length fact, sibling agreement of the fixed-distance filters",
   text="Decides structural conditions for the candidate search to be a pure accelerator: its candidate never becomes the \\G origin (R-ORIGIN); for every find mode the fields each finder arm reads were assigned by the producer before it set that mode, and every accepted mode has a finder (R-MODE); the minimum-length fact is only ever compared or subtracted from an end position (R-MINLEN); the raw-string filters are left-to-right only (R-RTLFILTER) and agree on the lower bound they hand to the shared candidate-start helper (R-FDSIB). It does NOT decide the arithmetic of any finder (Boyer-Moore tables, IndexOf helpers, offsets) nor whether the published facts are true (C04).",
   note="Trusted: the producer idiom 'set mode, fill fields, return' is modelled at block granularity; helpers that receive opts.X as an argument are credited with reading X only.",
   ref="DESIGN.md §4 C03"),
 "C07": dict(
   technique="static analysis: SSA value identity and dominance over scan's loop (loop variant, must-pass-through on the CFG), pairing of resume arguments, direction-awareness of folds over the match sequence",
   text="Decides the structural skeleton of match iteration: each continued search resumes from X.textpos with X.RuneLength of the same match X (R-NEXT); after an empty match every path bumps the attempt position before searching, the stop tests compare with the direction-selected stoppos, and bump/stoppos come from one RightToLeft() test (R-EMPTYBUMP); every back edge of the attempt loop advances one step towards stoppos (R-ADVANCE, the loop variant); both arms of tidyMatch record the resume position (R-TEXTPOS); every fold that carries a position across matches is direction-aware (R-DIRFOLD); the find-all limit is charged only for reported matches (R-COUNTN). Strict monotonicity of returned matches (needs: the finders and the interpreter never move the attempt position backwards) and the length+1 bound are NOT decided.",
   note="Trusted: go/ssa; 'direction-aware' means the function consults RightToLeft() or is only called under a branch on it — that the mirrored arithmetic is right is not checked.",
   ref="DESIGN.md §4 C07"),
 "C04": dict(
   technique="static analysis: SSA path search over the accumulate-until-stop protocol, AST idiom rules for capped expansion / monotone narrowing / merge counting, guard dominance (M > 0), observer-contract checks (IsNegated), default-arm evaluation",
   text="Decides shape conditions that every fact-deriving analysis must meet for its output to over-approximate the pattern: after a child analysis says 'stop' nothing more is appended (R-ACC); a capped loop expansion can only report 'fully processed' through the cap variable (R-ACCCAP); the shared prefix of an alternation only shrinks (R-NARROW); an offset counts as common to all branches only where the branch was merged (R-ALTMERGE); a loop's child is required content only under M > 0 (R-OPTLOOP); callers of GetSetChars honour its negation contract (R-NEGCHARS); unknown node kinds yield the know-nothing value (R-DEFAULT). Each rule has pointed at a real unsound fact in this code base. It does NOT decide that the published strings, sets, anchors and lengths are correct for the pattern's language.",
   note="Trusted: the three accumulating analyses are named in the rule (tryFindPrefix, findPrefixesCore, tryFindRawFixedSets); idiom rules match the repository's own clamp / narrowing idioms and report nothing when a new idiom is used (floors guard the instance counts).",
   ref="DESIGN.md §4 C04"),
 "C05": dict(
   technique="static analysis: dominance of direction guards + guarded-call-site fixpoint over the static call graph, who-may-call table, guard-field check, same-field comparison lint with exact zero baseline",
   text="Decides side conditions every tree rewrite must respect: left-to-right-only reasoning about a string's first rune runs only in left-to-right context (R-DIRCTX, local dominance or every call path guarded); ending-backtracking elimination is invoked only from the five contexts nothing can backtrack into (R-ATOMCTX); descending into a loop's child as 'what follows' requires M > 0 on that node (R-OPTLOOP); node-equality chains compare like fields (R-XFIELD). It does NOT decide the substance of the rewrites (class disjointness, nullability of what follows, MayOverlap) nor equality with the un-rewritten pattern.",
   note="Trusted: static callees only (the tree code has no dynamic dispatch); the direction test is recognised as any condition mentioning `& RightToLeft` or a bool derived from it.",
   ref="DESIGN.md §4 C05"),
 "C15": dict(
   technique="static analysis: who-may-write on the text position (SSA), set-valued constant evaluation of emit operands, argument-shape and sibling-agreement checks over the parser and interpreter (AST + types), direction-guard dominance and call-graph fixpoint",
   text="Decides the structural carriers of direction: only the direction-aware accessors, textto, scan and the (left-to-right-only) finders may write the text position (R-DIRACC); every text-consuming instruction the writer emits carries the node's Rtl bit, which is derived from node.Options (R-DIRBITS); the parser attaches every concatenation through reverseLeft() (R-REVERSE); lookahead arms clear and lookbehind arms set the direction before the node is created (R-LOOKDIR); left-to-right-only reasoning stays in left-to-right context (R-DIRCTX); sibling interpreter handlers agree on their position arithmetic, including the use of bump() (R-SIB); folds over the match sequence consult the direction (R-DIRFOLD). It does NOT decide that each right-to-left branch computes the mirror image (anchor pre-filters, Boyer-Moore tables, capture spans).",
   note="Trusted: the writer/finder tables in the rules name the accessor functions; finders named find…LeftToRight are accepted as left-to-right-only because R-RTLFILTER/R-MODE (C02/C03) show they are selected only for left-to-right programs.",
   ref="DESIGN.md §4 C15"),
 "C16": dict(
   technique="static analysis: observer/transformer contract checks over the CharSet methods (AST + types, guard dominance on go/cfg), who-may-write and range/guard checks on the ASCII table (SSA), parameter pass-through, lookup-dominance of accepted category names",
   text="Decides that every lookup path and every normalisation treats a class as the same set: no function that inspects or rewrites ranges/categories ignores the subtraction, canonicalize normalises only under sub == nil, merge/enumeration operands are tested (R-SUB); callers of GetSetChars honour negation (R-NEGCHARS); the ASCII fast path is charInSlow tabulated over exactly 0..127, consulted only for 0 <= ch < 128, never copied and never followed by a mutation (R-BITMAP); a subtraction is parsed with the same case flag as its class (R-CASERECUR); a category name is accepted only if a table exists for it (R-CATTABLE). It does NOT decide membership itself: range arithmetic in canonicalize, the lowercase tables, category evaluation order, singleton values.",
   note="Trusted: the exemption table of builders/serialisers (one reason per function; makeAnything/addSet/addLowercase exemptions carry side conditions that are checked).",
   ref="DESIGN.md §4 C16"),
 "C17": dict(
   technique="static analysis: argument-shape checks on the writer's emit sites, SSA value-flow of group numbers to slot indexes, sibling agreement of capture-node creation, guard dominance in the slot-assignment loop",
   text="Decides that a user-visible group number reaches a capture-slot index only through the number->slot maps: every Capturemark/Ref/Testref operand is wrapped in mapCapnum, NewReplacerData maps $n through caps, GroupByNumber maps through sparseCaps before indexing and is only ever given a group number inside the module, initMatch builds a sparse Match exactly when the Regexp has a caps map (R-SLOT); every capture node the main parse creates accounts for its slot like the pre-scan does (R-CAPNODE); a named group gets the next number that is provably not taken (R-SKIPTAKEN). It does NOT decide that the pre-scan and the main parse assign the same numbers for every pattern, nor name ordering and duplicate-name rules.",
   note="Trusted: the set of group-carrying opcodes {Capturemark, Ref, Testref} is named in the rule.",
   ref="DESIGN.md §4 C17"),
 "C18": dict(
   technique="static analysis: who-reads classification of the compile-time option words (AST parent shape + constant masks), push/pop typestate of the option stack by path enumeration in both parser passes",
   text="Decides that nothing outside the parser decides an inline-settable option from the compile-time word: every read of Regexp.options / RegexTree.Options / ParseOptions.RegexOptions / compileConfig.regexOptions is handed on whole to initialise a parser, tree or Regexp, or is masked with a constant built only from options that cannot be set inline (R-TOPONLY); and that in both the main parse and the capture pre-scan the option stack is pushed once per opened group, restored by popOptions only at `)`, and kept (popKeepOptions) for option-only groups (R-OPTSTACK). It does NOT decide that (?O)..., (?O:...) and the compile-time flag produce the same tree.",
   note="Trusted: the list of inline-settable options {IgnoreCase, Multiline, Singleline, ExplicitCapture, IgnorePatternWhitespace} comes from the property; helper methods that read p.options (useOptionX …) read the parser's CURRENT word and are therefore in the allowed place.",
   ref="DESIGN.md §4 C18"),
 "C19": dict(
   technique="static analysis: evaluation of the writer's decision tree and the reader's switch from the AST (constant case labels, string literals, value intervals from branch conditions, padding idioms) and comparison of the two tables; dominance of the escaping loop; byte-offset -> rune-position taint on SSA",
   text="Decides that the escape writer and the escape reader agree as tables: each named escape is read back as the rune it was written for, the number of hex digits emitted after \\x and \\u on each path (from the value interval and padding) equals the fixed width the reader consumes, every bare-backslash escape is returned unchanged by the reader's default arm under every option set, and every printable ASCII character the parser classifies as special is in meta (R-CODEC); Escape cannot return without having escaped every rune (R-ESCALL); a byte offset from a string search never becomes a rune position or the parser position (R-UNITS). It does NOT decide that ^Escape(s)$ matches exactly s — that needs the parser and the engine.",
   note="Trusted: ASCII printable range 0x20..0x7E; padding idioms recognised: `if len(s) == 1 { write '0' }` and strings.Repeat(\"0\", W-len(s)) — an unrecognised idiom is reported as a width mismatch rather than ignored.",
   ref="DESIGN.md §4 C19"),
 "C20": dict(
   technique="static analysis: observer/transformer contract on CharSet (shared with C16), parameter pass-through, presence of the ASCII test on every construction path of an ASCII-only search (call-graph closure), entry-block dominance in reduce, same-callee check in refmatch",
   text="Decides structural preconditions of case-insensitive matching: case equivalences and lowercasing reach a class's subtraction and nothing that inspects a class ignores it (R-SUB, R-CASERECUR); callers of GetSetChars honour negation (R-NEGCHARS); the ASCII-only ignore-case search helpers are only reachable for needles tested to be ASCII (R-ASCIIFOLD); reduce() clears IgnoreCase on everything except backreferences before any rewrite, so Ref is the only instruction compared case-insensitively at run time, and refmatch folds both sides with the same function (R-CIREF). It does NOT decide the invariance itself (fold tables, the parser's expansion of literals into per-letter sets, prefix extraction).",
   note="Trusted: R-ASCIIFOLD checks presence of the ASCII test in the function or in every constructing caller, not dominance (the test is correlated with the ignoreCase flag in ways dominance cannot express).",
   ref="DESIGN.md §4 C20"),
 "C08": dict(
   technique="static analysis: SSA dominance of the span normalisation, affine evaluation of index expressions, sibling agreement of the byte mappers (phi shape), argument identity of the match-text constructor, byte-offset/rune-position taint",
   text="Decides structural parts of well-formedness and index conversion: a recorded capture length is always computed after the end<start swap (R-CAPNORM); a group's embedded capture is its last capture (index pair 2c-2, 2c-1), its capture list uses pairs (2i, 2i+1), and group 0 gets exactly one capture from matches[0] (R-LASTCAP); every byte mapper that sizes runes with utf8.RuneLen re-decodes under RuneError, so an invalid byte counts 1 and a real U+FFFD counts 3 (R-RUNEWIDTH); string entry points that return a Match build its text from the original string (R-STRTEXT); byte offsets never flow into rune positions (R-UNITS). It does NOT decide 0 <= index <= index+length <= len for every capture (that depends on the interpreter's positions), balancing compaction, or value-for-value agreement of the three mappers.",
   note="Trusted: index expressions are compared as affine forms in capcount / the loop variable; other algebraic forms would be reported as mismatches.",
   ref="DESIGN.md §4 C08"),
 "C09": dict(
   technique="static analysis: constant evaluation across packages, affine comparison of encoder/decoder arithmetic (SSA), switch-arm set agreement (AST), loop-direction and dominance checks in the replace drivers, shared direction-awareness and slot-map rules",
   text="Decides structural conditions for Replace/Split to be the fold of the match sequence: the rule encoding is one affine map with equal constants on both sides (R-REPCONST); every special token has an arm in both expansion functions and the right-to-left one collects a replacement's pieces last-to-first for its back-to-front writer (R-REPCASES); the balancing compaction precedes every expansion of the reused match and the loops stop at count zero before searching again (R-COMPACT); Split and the drivers are direction-aware (R-DIRFOLD); Split's groups go through the number->slot map (R-SLOT). It does NOT decide that the text between matches is copied correctly, $-grammar ambiguities, or that replacing with $& is the identity.",
   note="Trusted: 'direction-aware' means the direction is consulted; the mirrored arithmetic itself is not checked.",
   ref="DESIGN.md §4 C09"),
 "C14": dict(
   technique="static analysis: lockset dataflow, dominance and must-pass-through on go/ssa for the clock state machine, value identity of the deadline, stale-read analysis of the pooled Runner's timeout fields",
   text="Decides only the structural skeleton of the timeout machinery: fast.start/running are touched under fast.mu and the clock word only through sync/atomic (R-LOCK); the clock's end is only ever raised, under the lock (R-CLOCKEND); one place spawns the clock goroutine, only when not running and after marking it running, and only the goroutine itself clears the flag after its loop (R-CLOCKSTATE); a deadline beyond the clock's end always extends the clock, and the clock is extended for exactly the deadline that is returned (R-RESTART, R-ENDCOVER); scan and the interpreter poll the deadline in their loops (R-POLL); the timeout fields of a pooled Runner are re-established on every call (R-STALE). Every timing statement of the property — no earlier than about d, no later than d plus a few periods, correctness of the stale-clock refresh, the goroutine actually exiting — is NOT decided and cannot be by this technique.",
   note="Trusted: go/ssa; time.Sleep/time.Since behaviour is outside the analysis.",
   ref="DESIGN.md §4 C14"),
}

# rules added after the first build round: appended to the claim texts above
ADDED = {
 "C01": " Also: symbolic interpretation of every emitFragment template (Alternate, conditionals, loops, captures, lookarounds, atomic) with per-opcode exit depths computed from forward and backtracking clauses — all paths reach each code position with one grouping-stack depth, the node is left at its entry depth, every emitted position is reachable (R-BRACKET); every loop-closing opcode tests for an empty iteration (R-EMPTYITER).",
 "C02": " Also: emitCapture (what the quick program may omit) is evaluated three-valued under the obligations derived from the interpreter's Capturemark clause (R-QUICKOMIT).",
 "C03": " Also: writer/reader guard agreement on the Boyer-Moore tables (R-TABLEDOM); the landmark-chain search continues from the minimal, not the greedy, end of a landmark (R-LMMIN); -1 sentinels are not tested against 0 (R-SENTINEL); the bump-along walk steps only through Atomic and Concatenate (R-BUMPWALK); no dead copy into a table that is then replaced (R-DEADCOPY); over-long prefixes are truncated under a direction test (R-DIRTRUNC).",
 "C04": " Also: complement-of-one-character constructions guard each half by its own end (R-COMPL); negate is switched on only for fresh or empty sets (R-NEGFRESH); loops over an alternation's branches skip none and compare every branch's answer with the first one's (R-ALTALL).",
 "C05": " Also: the successor kinds for which canBeMadeAtomic makes a loop atomic are checked against a table with a soundness argument per kind (R-ATOMSUCC; \\B is a recorded known finding).",
 "C08": " Also: lazily built offset tables are created at the first rune that is not one byte wide (R-LAZYTABLE); capture lengths handed to addMatch are proven non-negative path by path (R-NONNEGLEN).",
 "C09": " Also: the number->slot map is read only for non-negative keys (R-CAPSKEY).",
 "C10": " Also: grow-before-store comparisons exclude index == len (R-GROWCMP); loop-closing opcodes test for empty iterations (R-EMPTYITER).",
 "C11": " Also: a pooled buffer is released exactly once (deferred put and no explicit put) (R-OWN).",
 "C14": " Also: the clock re-reads its period every tick (R-PERIOD); makeDeadline reads clockEnd before current on the lock-free path and recomputes the deadline under the lock on every path (R-FRESHREAD); durations are not added before downscaling (R-TICKSUM).",
 "C15": " Also: one-sided truncation of a direction-dependent text sits under a direction test (R-DIRTRUNC); capture lengths are non-negative on every path of transferCapture (R-NONNEGLEN).",
 "C16": " Also: every exit of a function that propagates to the subtraction comes after the subtraction was handled (R-SUBFIRST); members are added only to the positive form of a class (R-FLIPADD typestate against canonicalize's negation rewrite); a flushed pending range start resets inRange (R-RANGEFLUSH); the set-table key is injective (R-KEYINJ); negate only on fresh/empty sets (R-NEGFRESH).",
 "C17": " Also: map reads only for group numbers (R-CAPSKEY); GroupNameFromNumber/GroupByNumber receive numbers, never slots, and numbers missing from the sparse map are not slots (R-SLOT); the option stack of the pre-scan saves a word for every plain group and consumes the `)` of option-only groups (R-OPTSTACK); ignoreNextParen is consumed by the next parenthesis of any kind in the main pass as in the pre-scan (R-IGNPAREN).",
 "C18": " Also: plain groups save options in the pre-scan and option-only groups consume their `)` (R-OPTSTACK); '+' and '-' set the on/off mode absolutely (R-OPTSIGN).",
 "C19": " Also: no escape sequence written by escape() is one the pattern-level scanners claim before scanCharEscape (R-ESCLETTERS).",
 "C20": " Also: adding methods never overwrite a member in place (R-ADDMONO); the decision to fold a bare character uses the fold relation, not a general category (R-FOLDSIB); exits before the subtraction is case-folded (R-SUBFIRST).",
}
for k, v in ADDED.items():
    CLAIMS[k]["text"] += v


ADDED2 = {
 "C02": " Wave 3: R-LIVEOPS (opcodes that read capture state are kept alive), R-QUICKSAME (the quick Code differs only in its instruction stream), R-FFFDFILTER (byte-searching filters refuse U+FFFD literals), R-STEPDECODE.",
 "C03": " Wave 3: R-FWDONLY (26 stores to Runtextpos in the left-to-right finders are derived >= the incoming position), R-BUMPWALK covers lazy loops inside Atomic.",
 "C04": " Wave 3: R-BYTERUNE, R-RUNECUT (UTF-8 prefixes are not treated as bytes), R-MAXASMIN.",
 "C05": " Wave 3: R-ATOMREP (folding of repeated atomic loops depends on the bounds).",
 "C07": " Wave 3: R-FWDONLY, R-SENTINELARG (-1 'unspecified' parameters are not tested with <= 0), R-UNITCMP (byte offsets are not compared with rune indexes).",
 "C08": " Wave 3: R-UNITCMP, R-RUNELENNEG, R-STEPDECODE, R-RUNEWIDTH generalised.",
 "C09": " Wave 3: R-REPID (nothing replaced => input returned), R-COMMITPOS ($nn commits number and position together).",
 "C10": " Wave 3: R-MAKEARG (no allocation sized by a caller's count), R-LIM5, R-RUNEWIDTH.",
 "C12": " Wave 3: R-QUICKSAME, R-SELFRUN (Regexp methods search with their own receiver).",
 "C13": " Wave 3: R-LIM5 (ensureStorage re-tests the reserve after growTrack).",
 "C14": " Wave 3: R-SELFRUN.",
 "C15": " Wave 3: R-ANCHORSIB (each anchor tested alone in both direction arms), R-BMDIR (Boyer-Moore tables are walked in the search direction).",
 "C16": " Wave 3: R-COPYALL (Copy carries every field), R-UNIONRET (category membership is a union), R-WORDSIB (\\b predicate and \\w class agree per mode), R-OR20, R-KEYINJ for the string table.",
 "C18": " Wave 3: R-OPTCACHE (option predicates are not cached across a loop).",
 "C19": " Wave 3: R-RUNEBYTE, R-ERRFALLBACK, R-KEYINJ.",
 "C20": " Wave 3: R-LETTERRANGE (interval abstraction of letter/digit range tests), R-OR20, R-CATIDENT, R-CIFLAG, R-COPYALL.",
}
for k, v in ADDED2.items():
    CLAIMS[k]["text"] += v

ADDED3 = {
 "C02": " Wave 4: R-WHOLETEXT (every entry point hands the runner the whole text and a start index).",
 "C04": " Wave 4: R-CATSTOO (class-level facts consult categories and the subtraction, not only ranges), R-SCRATCH (scratch sets are reset before reuse), R-FAILFIRST (failure is tested before nullability when two branch results are combined).",
 "C07": " Wave 4: R-PREVINIT (the previous-edge variable of a find-all loop starts at a negative constant, so the first empty match is kept).",
 "C09": " Wave 4: R-LOOPMATCH (nothing reachable from the replace / split drivers caches a value on the runner's reused Match), R-FOLDEXIT (the folds leave their loop only on no-match or an exhausted count).",
 "C10": " Wave 4: R-UNITS also tracks len(string) as a byte count and the scan start as a rune-unit sink.",
 "C11": " Wave 4: R-PROTOCOPY (predefined class prototypes are handed out as deep copies), R-UNLOCK (every Lock / RLock reaches its release on every path, no second acquisition first).",
 "C12": " Wave 4: R-LOOPMATCH.",
 "C16": " Wave 4: R-CATSTOO, R-DIALECTSIB (shorthand classes pick their dialect alike outside and inside a class, and \\b with \\w).",
}
for k, v in ADDED3.items():
    CLAIMS[k]["text"] += v

ADDED4 = {
 "C03": " Wave 4b: R-CASEBIT (ASCII case-bit arithmetic only on letters), R-LMALT (the landmark search looks at every alternative and keeps the earliest end).",
 "C04": " Wave 4b: R-LOOKFACT (facts borrowed from a lookahead only under a direction test of the pattern).",
 "C05": " Wave 4b: R-OVERLAPNEG (atomicity only on evidence of disjointness), R-MINLENUSE (minimum length 0 is not 'always matches'), R-ENDCHILD (no direction-dependent choice of a child index), walk-up table of R-ATOMSUCC.",
 "C06": " Wave 4b and after: R-TENTATIVE, R-POSIXASCII (RE2 class parsing), R-MAPSTATE (per-match callbacks keep no direction-blind cursor), R-NODEOPTS, R-TEXTSLICE (results are cut out of the input, not re-encoded), R-NILEMPTY (no match is nil).",
 "C07": " Wave 4b: R-MAPSTATE.",
 "C08": " Wave 4b: R-COMPACTSIB (the two compaction loops are the same algorithm), R-LAZYFULL (a lazily built slice is completely built before it can be seen), R-MAPSTATE.",
 "C09": " Wave 4b: R-CACHEPAIR (key and payload of a cache entry are stored together), R-COMPACTSIB.",
 "C10": " Wave 4b and after: R-STARTRANGE (caller-supplied start offsets are compared with the input length), R-RUNEIDX (runes that index tables are bounded from below).",
 "C12": " Wave 4b: R-CACHEPAIR.",
 "C15": " Wave 4b: R-LOOKFACT, R-ENDCHILD.",
 "C16": " Wave 4b and after: R-CATPRED (category membership through unicode.Is on the named table), R-RANGEPEND, R-TENTATIVE, R-POSIXASCII, R-UNIONNEG (a negated group of categories is not the union of the negated members), R-BITMAP writes only under charInSlow.",
 "C17": " Wave 4b: R-LAZYFULL, R-NAMEONCE (registration helpers change state only at a first occurrence), R-PARSERFRESH (a parser is made for one parse).",
 "C18": " Wave 4b: R-NODEOPTS (every node gets the parser's current option word), R-PARSERFRESH, R-OPTMEMO (no memo of scanned constructs keyed by text).",
 "C19": " Wave 4b: R-TRUNC (rune to byte conversions are bounded).",
 "C20": " Wave 4b and after: R-CASEBIT, R-NODEOPTS, R-UNIONNEG, R-LCTABLE (every row of the lowercase table agrees with the Unicode case data of the toolchain).",
}
_late = {}
for k, v in ADDED4.items():
    if k in CLAIMS:
        CLAIMS[k]["text"] += v
    else:
        _late[k] = v

ADDED5 = {
 "C01": " Wave 5: R-CRAWLPAIR (a |Back clause removes exactly the crawl entries its forward clause recorded, for every combination of the operand tests).",
 "C02": " Wave 5: R-WHOLETEXT follows re-assigned parameters (phis).",
 "C03": " Wave 5: R-FAILPROP (a failed sub-analysis answer is never swallowed), R-MINLENZERO (the minimum required length is not the minimum match length), R-CIEXACT (no ignore-case search falls back on an exact search for the whole needle), R-NOMATCHEXIT, R-DIRTRUNC for direction parameters.",
 "C04": " Wave 5: R-FAILPROP, R-LOOPSIB (the loop a literal is published after is the concatenation's first child behind single-child wrappers only), R-NEGCHARS element reads are under a not-negated test.",
 "C05": " Wave 5: R-BOUNDSET (a loop's class is related to \\b only by identity with a predefined class that consists of word characters, verified against the source), R-DISTINCT (knownDistinctSets concludes only from identity with predefined classes; each listed pair is evaluated from the initialisers over all code points), R-DIRCTX also covers one-sided cuts of a node's string.",
 "C07": " Wave 5: R-MINLENZERO, R-NOMATCHEXIT (scan gives up only on the scan position).",
 "C08": " Wave 5: R-VALIDFLAG (matchText.input only under hasStringInput), R-REFDEPTH (balancing references never chain: readers resolve one level), R-RANGEBYTE.",
 "C09": " Wave 5: R-FOLDSRC (nothing reachable from Split / Replace / ReplaceFunc calls a find-all driver), R-WHOLETEXT.",
 "C10": " Wave 5: R-CRAWLPAIR; R-GUARD understands min().",
 "C11": " Wave 5: R-FX taint flows through local cells (defer-spilled results), R-NOALIAS (no exported *Regexp method returns storage of the compiled object).",
 "C14": " Wave 5: R-SENTCONST (the no-timeout flag compares with a constant, never a package variable).",
 "C15": " Wave 5: R-DIRCTX one-sided cuts, R-DIRTRUNC direction parameters.",
 "C16": " Wave 5: R-ANYSUB ('anything' never skips a transformation that must reach the subtraction), R-ADDMONO for whole-slice assignment, R-DISTINCT.",
 "C17": " Wave 5: R-NOALIAS.",
 "C19": " Wave 5: R-RANGEBYTE (a byte offset in a range over a string is stepped by the rune's width), R-DIRTRUNC.",
 "C20": " Wave 5: R-ANYSUB, R-CIEXACT, R-FOLDPAIR (a case variant is judged together with the character it belongs to).",
}
for k, v in ADDED5.items():
    CLAIMS[k]["text"] += v

ADDED6 = {
 "C01": " Wave 6: node kinds are the Nt-prefixed constants (other NodeType-typed constants are values).",
 "C02": " Wave 6: R-TEXTEND (Runtextend is only ever the length of the installed text).",
 "C03": " Wave 6: R-LMSTART (the landmark-chain candidate is never right of a possible match start: leftmost start among the alternatives, rewind over every alternative's leading whitespace), R-GAPKIND (only zero-width kinds between the leading loop and the first landmark), R-SEARCHSTEP (plain searches try every start position).",
 "C04": " Wave 6: R-ACCCAP compares the capped count with the loop's maximum, R-BUFALIAS (no buffer over another buffer's bytes), R-DISTADD (a running offset only grows by addition), R-GAPKIND.",
 "C05": " Wave 6: R-ANCHORSRC (anchor nodes come from the parser only), R-EOLNL ($ / \\Z successors keep the newline out of the loop), R-LOOPONCE (direct descent into a loop body only for loops that run at most once).",
 "C07": " Wave 6: R-ANCHORSRC.",
 "C09": " Wave 6: R-ERRPROP (an error from the matcher is never dropped by a fold), R-SPLITSTRIDE (one entry per group per match), R-REWINDFIRST (a scanner that can give up saves its position before consuming).",
 "C10": " Wave 6: R-ERRPROP, R-TEXTIDX (a text index that a loop advances is tested against an upper bound before use).",
 "C11": " Wave 6: R-EXITFRESH (the clock goroutine stops on a reading of clockEnd taken in the same critical section).",
 "C13": " Wave 6: R-ERRPROP.",
 "C14": " Wave 6: R-ERRPROP, R-EXITFRESH.",
 "C15": " Wave 6: R-TEXTEND.",
 "C16": " Wave 6: R-ESCLITERAL (an escaped character in a class is finished by its arm or marked translated).",
 "C17": " Wave 6: R-PRESCANSIB (the pre-scan consumes the same pattern text as the main parse on both sides of every scanOnly branch), R-OPTWRITE, R-NUMCHECK (a by-number name lookup answers only for bounded numbers).",
 "C18": " Wave 6: R-PRESCANSIB, R-OPTWRITE (parser.options changes only through the option stack, the inline-option scanner and the look-around direction bit), R-INLINEMASK (no inline-settable option is cleared from an option word outside the parser).",
 "C19": " Wave 6: R-CODEC also requires every error return of the reader's default arm to stand under a word-character test.",
}
for k, v in ADDED6.items():
    CLAIMS[k]["text"] += v

ADDED7 = {
 "C01": " After wave 6: R-RUNESTR (no rune sequence of a node is built by way of a Go string).",
 "C05": " After wave 6: R-RUNESTR, R-BALTRANSP (ending backtracking is removed from the content of a plain capture only, never of a balancing group), R-ENDDIR (an end anchor lets only a left-to-right loop become atomic).",
 "C15": " After wave 6: R-ENDDIR.",
}
for k, v in ADDED7.items():
    CLAIMS[k]["text"] += v

ADDED8 = {
 "C01": " Wave 7: R-ENDZLATEST (a finder for a \\Z find mode gives up only behind Runtextend minus the length), R-ENUMPOS (MayOverlap reads the raw member lists of positive classes only), R-STACKREL (saved stack positions are depths from the end of the stack).",
 "C02": " Wave 7: R-STARTSENT (only a negative start offset selects the default start), R-BOUNDDEC (rune boundaries come from decoding, not from utf8.RuneStart).",
 "C03": " Wave 7: R-KEEPLOOK (only zero-width nodes may precede a leading lookahead), R-ENDZLATEST.",
 "C04": " Wave 7: R-SETCOMPLETE (a published first-rune set is collected from all alternatives), R-DIRTRUNC.",
 "C05": " Wave 7: R-EOLNL also checks that the newline test has the form of the sibling test for a one-character successor, R-EQSUB (class equality includes the subtraction).",
 "C06": " Wave 7: R-OFFTABLE (reader / byte adapters answer byte indexes from the offset table built while decoding), R-UNITCMP also rejects adding a rune count to a byte offset.",
 "C08": " Wave 7: R-OFFTABLE, R-UNITCMP (+ / -).",
 "C09": " Wave 7: R-DOLLARLIT (a ${...} whose name does not scan is literal text), R-UNITCMP.",
 "C12": " Wave 7: R-STACKREL, R-STARTSET (elapsed time only from a start that is set).",
 "C13": " Wave 7: R-ERRIDENT (errors are returned as they are or wrapped with %w), R-STACKREL.",
 "C14": " Wave 7: R-NOWRAP (the caller's duration is not enlarged before it is scaled down), R-ERRIDENT, R-STARTSET.",
 "C15": " Wave 7: R-DIRCOUNT (absolute character counts only in anchor arms of the interpreter).",
 "C16": " Wave 7: R-NEGCLEAR (only the negation put there by canonicalize is taken back), R-ENUMPOS, R-EQSUB, R-FLIPADD also covers replacing the range list.",
 "C17": " Wave 7: R-MAPOK (group tables are read comma-ok), R-DIGITNAME (a name is a number only if all digits), R-PRESCANSTATE (the pre-scan keeps the scanner state of the main parse).",
 "C18": " Wave 7: R-PRESCANSTATE, R-OPTSTACK also rejects saving the options before a (?#...) comment is consumed.",
}
for k, v in ADDED8.items():
    if k in CLAIMS:
        CLAIMS[k]["text"] += v
    else:
        _late[k] = _late.get(k, "") + v

ADDED9 = {
 "C01": " Wave 8: R-CONDUNWRAP (only a positive lookahead condition is replaced by its body), R-NOSHORTCUT (no entry point answers no-match from offset == len(input)).",
 "C02": " Wave 8: R-NOSHORTCUT, R-SCANASCII (the byte-set pre-filter holds ASCII members only), R-STARTSENT through default-start entry points.",
 "C03": " Wave 8: R-REFZERO (a backreference adds nothing to the minimum length), R-SAMEHAY (every prefix is searched in the same text).",
 "C04": " Wave 8: R-REFZERO.",
 "C05": " Wave 8: R-CONDUNWRAP.",
 "C08": " Wave 8: R-UNITCMP through index-mapping callbacks, R-UNITS also for high bounds.",
 "C09": " Wave 8: R-STARTSENT, R-UNITS, R-NAMESTART.",
 "C11": " Wave 8: R-RELEASEOWN (a runner is released by the function that took it), R-NOUNSAFE, R-BUFESCAPE (the pooled text buffer is not kept in objects built during a call).",
 "C12": " Wave 8: R-RUNMATCHOWN (the working Match of a runner is its own), R-RELEASEOWN, R-UNITS.",
 "C13": " Wave 8: R-RELEASEOWN.",
 "C14": " Wave 8: R-IGNORETO (the no-timeout flag is tested where the deadline is read), R-PADPERIOD (the deadline is padded by the clock period).",
 "C15": " Wave 8: R-STARTSENT.",
 "C16": " Wave 8: R-CATEQ (a category is redundant only next to itself).",
 "C17": " Wave 8: R-NAMESTART (the replacement parser uses the flavour-aware name-start predicate), R-TAKEALL (UnmarshalText takes over every field).",
 "C19": " Wave 8: R-ESCAPEONE (Escape writes only through escape()), R-RUNEERR (a RuneError comparison looks at the width).",
 "C20": " Wave 8: R-FOLDWALK (case closure walks every range).",
}
for k, v in ADDED9.items():
    if k in CLAIMS:
        CLAIMS[k]["text"] += v
    else:
        _late[k] = _late.get(k, "") + v

ADDED10 = {
 "C01": " Wave 9: R-REPKIND (a group loop merges only with a child loop of its own laziness), R-ENUMFULL (disjointness by enumeration looks at every member), R-BMFALLBACK (open entries of the Boyer-Moore good-suffix table get the unit step).",
 "C02": " Wave 9: R-RESETALL (a recycled Match is cleared unconditionally).",
 "C03": " Wave 9: R-BYTECAND (a byte candidate is never len(input) minus a pattern length), R-BMFALLBACK.",
 "C04": " Wave 9: R-MONOFLAG (the all-branches-fixed flag of the alternation analysis can only be lowered).",
 "C05": " Wave 9: R-REPKIND, R-ENUMFULL, R-EOLNL also for rows in a separate if, R-REPCAP (nested group loops around a capture are not merged).",
 "C06": " Wave 9: R-REPKIND, R-SPACEARGS, R-OFFTABLE (ReadRune sizes are used).",
 "C08": " Wave 9: R-OFFTABLE (ReadRune sizes are used), R-LASTLE (the rune-to-byte table is searched for the last entry <= x with a strict predicate), R-STRRUNES (String() is the encoding of the slice Runes() returns).",
 "C09": " Wave 9: R-ROOMLTR (room-to-the-right tests only for left-to-right searches), R-COUNTDEC (the remaining-match count only counts down), R-REPLMASK.",
 "C10": " Wave 9: R-CRAWLGUARD, R-REPLMASK (no node of a replacement literal carries IgnoreCase: addToConcatenate evaluated for literal lengths 0-3).",
 "C11": " Wave 9: R-FRESHRE (no package-level variable can hold a *Regexp).",
 "C12": " Wave 9: R-RESETALL, R-CRAWLGUARD (a push onto the crawl stack makes room for itself), R-TAKEALL.",
 "C13": " Wave 9: R-TRACKGROW (the backtracking stack grows only through the limit-aware routine), R-CRAWLGUARD, R-TAKEALL (nothing of the old receiver survives UnmarshalText).",
 "C14": " Wave 9: R-FRESHRE, R-TIMEOUTSRC (the runner uses the timeout it was called with).",
 "C15": " Wave 9: R-ROOMLTR, R-EXCLEND (an exclusive end is not decremented twice).",
 "C16": " Wave 9: R-NEGTOGGLE (negation is set, never toggled), R-SPACEARGS.",
 "C17": " Wave 9: R-DENSEEQ (the direct capture table only without holes), R-TAKEALL.",
 "C19": " Wave 9: R-ESCFORMS (escape() introduces no unknown escape form).",
}
for k, v in ADDED10.items():
    if k in CLAIMS:
        CLAIMS[k]["text"] += v
    else:
        _late[k] = _late.get(k, "") + v

CLAIMS["C06"] = dict(
   technique="static analysis: method-set / signature comparison on go/types against the standard library's *regexp.Regexp, SSA unit taint (rune positions vs byte offsets) over package compat, guard dominance on go/cfg for groups without captures, delegation check of the find-all limit, sibling agreement of the parser's dialect predicates",
   text="Decides structural necessary conditions of the adapter returning what Go's regexp returns: every Match*/Find* method of *regexp.Regexp exists on the adapter with an identical signature and is covered by the compile-time witnesses (R-SURFACE); no value computed from Capture.RuneIndex / RuneLength reaches an []int the adapter fills or a bound of a byte slice except through an offset table (R-BYTEUNIT), byte offsets are never compared with rune indexes (R-UNITCMP) and the lazily built offset table is created at the first rune that is not one byte wide (R-LAZYTABLE); a group without captures is reported as -1 pairs / nil / empty and never sliced (R-UNSETPAIR); n == 0 gives nil in every find-all method (R-NZERO); the first empty match is kept and the empty-match-next-to-previous rule is direction-aware (R-PREVINIT, R-DIRFOLD); the RE2 dialect switches of \\w \\d \\s, their forms inside a class and \\b / \\B are taken under the same option predicates (R-DIALECTSIB). It does NOT decide the equality itself: what is matched (leftmost-first vs backtracking semantics, class contents, anchors) is outside this technique.",
   note="Trusted: go/types for the standard library's method set; the taint is field-based (RuneIndex / RuneLength of regexp2.Capture) and treats indexing an []int as the only conversion to bytes; Compile does not force the RE2 option (the property quantifies over patterns compiled with it).",
   ref="DESIGN.md §3 C06")

for k, v in _late.items():
    CLAIMS[k]["text"] += v

NOT_APPLICABLE = {
}

def main():
    ids = [json.loads(l)["id"] for l in open(os.path.join(here, "properties.jsonl"))]
    checks = []
    for pid in ids:
        if pid not in CLAIMS:
            continue
        c = CLAIMS[pid]
        checks.append({
            "property_id": pid,
            "quick_cmd": f"./check {pid} quick",
            "thorough_cmd": f"./check {pid} thorough",
            "evidence_file": f"/verif/evidence/{pid}.json",
            "replay_cmd_template": f"./check {pid} --replay {{path}}",
            "engine": "regexlint",
            "technique": c["technique"],
            "level_claimed": {"category": "other", "text": c["text"], "design_ref": c["ref"]},
            "level_note": c["note"],
        })
    na = []
    for pid in ids:
        if pid in CLAIMS:
            continue
        reason = NOT_APPLICABLE.get(pid, "not claimed yet: the static rules for this property (DESIGN.md §4) are not built in this commit")
        na.append({"property_id": pid, "reason": reason})
    man = {
        "version": 1,
        "setup_cmd": "./build.sh",
        "hooks": {
            "guard": "verif",
            "enable": "none needed: the checks execute nothing from /repo; they load and type-check its current working tree with go/packages",
            "baseline_off_cmd": "cd /repo && go test -vet=off -count=1 -timeout 25m ./...",
            "source_commits": [],
            "add_only": True,
        },
        "engines": [{
            "name": "regexlint",
            "path": "/verif/lint",
            "serves_properties": sorted(CLAIMS),
            "kind_free_text": "repository-specific static analyser (go/packages, go/types, go/cfg, go/ssa + VTA call graph); one binary, one rule set per property; obligations keyed by rule+construct; floors and positive controls guard against vacuous passes",
        }],
        "checks": checks,
        "not_applicable": na,
        "notes": "Technique family: static analysis only. Every claim is at level 'other' and states the structural clause decided and the behaviour NOT decided. known_findings.json lists genuine defects (known / fixed).",
    }
    out = os.path.join(here, "MANIFEST.json")
    json.dump(man, open(out, "w"), indent=1)
    try:
        import jsonschema
        jsonschema.validate(man, json.load(open("/root/.vp/MANIFEST.schema.json")))
        print("MANIFEST valid:", len(checks), "checks,", len(na), "not applicable")
    except ImportError:
        print("jsonschema not available; wrote without validating")

if __name__ == "__main__":
    main()
