#!/bin/bash
# tools/seedcheck.sh <patch.diff> [props...]  — apply a seeded change to /repo, run checks, undo it.
# Prints one line per property: FIRES / silent.  Never leaves /repo modified.
set -u
patch="$1"; shift
cd /verif
props=("$@")
if [ ${#props[@]} -eq 0 ]; then props=($(bin/regexlint -list)); fi
if ! git -C /repo diff --quiet; then echo "/repo is dirty; refusing"; exit 2; fi
git -C /repo apply "$patch" || { echo "patch does not apply"; exit 2; }
trap 'git -C /repo checkout -- . ; ' EXIT
tmp=$(mktemp -d)
for p in "${props[@]}"; do
  out=$(VERIF_NOEVIDENCE=1 bin/regexlint -prop "$p" -no-evidence 2>&1); rc=$?
  if [ $rc -ne 0 ]; then echo "$p FIRES"; echo "$out" | grep -E "violated|undecided" | head -5 | sed 's/^/      /'; else echo "$p silent"; fi
done
