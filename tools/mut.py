#!/usr/bin/env python3
"""tools/mut.py <prop> <repo-relative-file> <from> <to> [count]
Applies one textual edit to a file IN MEMORY (packages.Config.Overlay) and runs
the property's rules on the result.  Nothing in /repo is touched."""
import sys, json, subprocess, tempfile, os
prop, rel, frm, to = sys.argv[1:5]
src = open('/repo/'+rel).read()
if frm not in src:
    print("mutation did not apply"); sys.exit(3)
n = int(sys.argv[5]) if len(sys.argv) > 5 else 1
# replace the n-th occurrence
idx = -1
for _ in range(n):
    idx = src.index(frm, idx+1)
new = src[:idx] + to + src[idx+len(frm):]
with tempfile.NamedTemporaryFile('w', suffix='.json', delete=False) as f:
    json.dump({'/repo/'+rel: new}, f)
    name = f.name
env = dict(os.environ, GOFLAGS='-mod=mod', GOPROXY='off', GOSUMDB='off', GOTOOLCHAIN='local', GOWORK='off',
           PATH='/opt/veriftools/go1.26.8/bin:'+os.environ['PATH'])
r = subprocess.run(['/verif/bin/regexlint', '-prop', prop, '-overlay', name, '-no-evidence'], env=env)
os.unlink(name)
sys.exit(r.returncode)
