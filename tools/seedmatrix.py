#!/usr/bin/env python3
"""tools/seedmatrix.py [seed-dir-names...] — run EVERY property's rules against each seeded change
(in memory, through the overlay; /repo is not touched) and print which properties / rules report it."""
import json, os, sys, subprocess, tempfile
from concurrent.futures import ThreadPoolExecutor
sys.path.insert(0, os.path.dirname(os.path.abspath(__file__)))
import sweep
VERIF = sweep.VERIF
props = subprocess.check_output([sweep.BIN, "-list"], text=True).split()
seeds = sys.argv[1:] or sorted(os.listdir(os.path.join(VERIF, "seeded")))

def one(job):
    seed, prop, ov = job
    with tempfile.NamedTemporaryFile("w", suffix=".json", delete=False) as f:
        json.dump(ov, f); name = f.name
    try:
        r = subprocess.run([sweep.BIN, "-prop", prop, "-overlay", name, "-no-evidence"], capture_output=True, text=True, timeout=900)
    finally:
        os.unlink(name)
    out = r.stdout + r.stderr
    rules = sorted({l.split()[1] for l in out.splitlines() if l.strip().startswith(("violated", "undecided"))})
    first = next((l.strip()[:260] for l in out.splitlines() if l.strip().startswith(("violated", "undecided"))), "")
    return seed, prop, r.returncode != 0, rules, first

jobs = []
for s in seeds:
    ov = sweep.overlay_from_patch(os.path.join(VERIF, "seeded", s, "patch.diff"))
    if ov is None:
        print(s, "PATCH DOES NOT APPLY"); continue
    for p in props:
        jobs.append((s, p, ov))
res = {}
with ThreadPoolExecutor(max_workers=10) as ex:
    for seed, prop, fired, rules, first in ex.map(one, jobs):
        if fired:
            res.setdefault(seed, []).append((prop, rules, first))
for s in seeds:
    hits = res.get(s, [])
    print("%s: %s" % (s, ", ".join("%s[%s]" % (p, "+".join(r)) for p, r, _ in hits) or "MISSED"))
    for p, r, first in hits:
        print("     %s %s" % (p, first))
