#!/usr/bin/env python3
"""tools/seedmatrix.py [seed-dir-names...] — run EVERY property's rules against each seeded change
(in memory, through the overlay; /repo is not touched) and print which properties / rules report it.
With --write-meta also (re)writes seeded/<id>/meta.json from the result."""
import json, os, sys, subprocess, tempfile, re
from concurrent.futures import ThreadPoolExecutor
sys.path.insert(0, os.path.dirname(os.path.abspath(__file__)))
import sweep
VERIF = sweep.VERIF
args = [a for a in sys.argv[1:] if not a.startswith("--")]
write_meta = "--write-meta" in sys.argv
SEEDDIR = "seeded"
for a in sys.argv[1:]:
    if a.startswith("--dir="):
        SEEDDIR = a[6:]  # e.g. --dir=benign : behaviour-preserving patches, every report is a false alarm
seeds = args or sorted(d for d in os.listdir(os.path.join(VERIF, SEEDDIR)) if re.match(r"C\d\d-[A-Z]$|b\d+-\d+$", d))
titles = {}
for l in open(os.path.join(VERIF, "properties.jsonl")):
    d = json.loads(l); titles[d["id"]] = d["title"]

def one(seed):
    ov = sweep.overlay_from_patch(os.path.join(VERIF, SEEDDIR, seed, "patch.diff"))
    if ov is None:
        return seed, None, []
    with tempfile.NamedTemporaryFile("w", suffix=".json", delete=False) as f:
        json.dump(ov, f); name = f.name
    try:
        r = subprocess.run([sweep.BIN, "-prop", "all", "-overlay", name, "-no-evidence"], capture_output=True, text=True, timeout=1800)
    finally:
        os.unlink(name)
    lines = [l for l in (r.stdout + r.stderr).splitlines() if re.match(r"(C\d\d) (violated|undecided) ", l) or l.startswith("LOAD")]
    return seed, ov, lines

with ThreadPoolExecutor(max_workers=int(os.environ.get("SEEDMATRIX_JOBS", "6"))) as ex:
    results = list(ex.map(one, seeds))
for seed, ov, lines in results:
    if ov is None:
        print(seed, "PATCH DOES NOT APPLY"); continue
    by = {}
    for l in lines:
        m = re.match(r"(C\d\d) (violated|undecided) (\S+) ", l)
        if m:
            by.setdefault(m.group(1), set()).add(m.group(3))
    print("%s: %s" % (seed, ", ".join("%s[%s]" % (p, "+".join(sorted(r))) for p, r in sorted(by.items())) or ("MISSED" if not lines else lines[0][:200])))
    for l in lines[:3]:
        print("     " + l[:260])
    if write_meta:
        d = os.path.join(VERIF, SEEDDIR, seed)
        mp = os.path.join(d, "meta.json")
        old = json.load(open(mp)) if os.path.exists(mp) else {}
        prop = seed.split("-")[0]
        notes = open(os.path.join(d, "notes.md")).read() if os.path.exists(os.path.join(d, "notes.md")) else ""
        needs = old.get("what_it_needs_to_manifest")
        if not needs:
            m = re.search(r"(?is)(what (it|is) need(s|ed)?.{0,40}?manifest.*?)(\n#+ |\Z)", notes)
            needs = (m.group(1) if m else notes)[:1800]
        meta = {
            "seed": seed,
            "property_broken": prop,
            "property_title": titles.get(prop, ""),
            "files_touched": [l[6:].strip() for l in open(os.path.join(d, "patch.diff")) if l.startswith("+++ b/")],
            "demonstration": sorted(f for f in os.listdir(d) if f.endswith("_test.go")),
            "what_it_needs_to_manifest": needs,
            "produced_by": "independent sub-agent given only the property text and a scratch git worktree of /repo (nothing from /verif)",
            "confirmed_by_me": old.get("confirmed_by_me") or ("tools/seedverify.sh %s %s in a fresh scratch worktree: patch applies, `go build ./...` ok, whole existing suite passes with the change, demonstration FAILS with the change and PASSES without it; worktree removed afterwards" % (prop, seed.split("-")[1])),
            "rebased_onto_fix_commits": old.get("rebased_onto_fix_commits", False),
            "checks_run": "tools/seedmatrix.py (the patched files are handed to every property's rules through the loader's overlay — the same analysis as `git -C /repo apply`, run, `git -C /repo checkout -- .`, without touching /repo); spot-checked with tools/seedcheck.sh on /repo itself",
            "detected_by": sorted(by),
            "reports": [l[:400] for l in lines[:6]],
            "status": "caught" if by else "missed",
        }
        json.dump(meta, open(mp, "w"), indent=1, ensure_ascii=False)
