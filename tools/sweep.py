#!/usr/bin/env python3
"""tools/sweep.py <prop> — sensitivity sweep for one property (thorough tier).

Applies small edits of /repo's CURRENT sources in memory (packages.Config.Overlay,
nothing on disk under /repo changes) and runs the property's rules on each variant in
its own subprocess (at most 8 at a time).  Variants come from
  (a) tools/mutants.json            hand-written catalogue, one entry per rule instance
  (b) seeded/<id>/patch.diff        changes written by independent sub-agents (applied to
                                    a temporary copy of the touched files to get the overlay)
  (c) for C10: every `p.charsRight() <op> k` guard in syntax/parser.go weakened by one

For each variant: does it still type-check, and does some rule report it?
Results are merged into evidence/<prop>.json under coverage.sensitivity_sweep.
A surviving variant measures the checker; it never changes the exit code (always 0).
"""
import json, os, re, subprocess, sys, tempfile, shutil, time
from concurrent.futures import ThreadPoolExecutor

VERIF = os.path.dirname(os.path.dirname(os.path.abspath(__file__)))
REPO = os.environ.get("VERIF_REPO", "/repo")
BIN = os.path.join(VERIF, "bin", "regexlint")


def overlay_from_edit(m):
    path = os.path.join(REPO, m["file"])
    src = open(path).read()
    if m["from"] not in src:
        return None
    idx = -1
    for _ in range(m.get("nth", 1)):
        idx = src.index(m["from"], idx + 1)
    return {path: src[:idx] + m["to"] + src[idx + len(m["from"]):]}


def overlay_from_patch(patch):
    files = [l[6:].strip() for l in open(patch) if l.startswith("+++ b/")]
    tmp = tempfile.mkdtemp(prefix="sweep-")
    try:
        for f in files:
            os.makedirs(os.path.dirname(os.path.join(tmp, f)) or tmp, exist_ok=True)
            shutil.copy(os.path.join(REPO, f), os.path.join(tmp, f))
        r = subprocess.run(["patch", "-p1", "-s", "-d", tmp, "-i", patch], capture_output=True, text=True)
        if r.returncode != 0:
            return None
        return {os.path.join(REPO, f): open(os.path.join(tmp, f)).read() for f in files}
    finally:
        shutil.rmtree(tmp, ignore_errors=True)


def guard_mutants():
    """every parser length guard, weakened by one"""
    path = os.path.join(REPO, "syntax/parser.go")
    src = open(path).read()
    out = []
    for mm in re.finditer(r"p\.charsRight\(\) (>=|>|<|<=|==) (\d+)", src):
        op, k = mm.group(1), int(mm.group(2))
        if op == ">=" and k >= 1:
            new = "p.charsRight() >= %d" % (k - 1)
        elif op == ">":
            new = "p.charsRight() >= %d" % k
        elif op == "<" and k >= 1:
            new = "p.charsRight() < %d" % (k - 1)
        elif op == "<=":
            new = "p.charsRight() < %d" % k
        elif op == "==" and k == 0:
            new = "p.charsRight() < 0"
        else:
            continue
        line = src.count("\n", 0, mm.start()) + 1
        out.append(({path: src[:mm.start()] + new + src[mm.end():]},
                    "guard at syntax/parser.go:%d `%s` -> `%s`" % (line, mm.group(0), new)))
    return out


def run_variant(prop, overlay):
    with tempfile.NamedTemporaryFile("w", suffix=".json", delete=False) as f:
        json.dump(overlay, f)
        name = f.name
    try:
        r = subprocess.run([BIN, "-prop", prop, "-overlay", name, "-no-evidence", "-repo", REPO, "-verif", VERIF],
                           capture_output=True, text=True, timeout=600)
    finally:
        os.unlink(name)
    out = r.stdout + r.stderr
    if "LOAD [" in out or "load / " in out:
        return "does-not-type-check", ""
    if r.returncode != 0:
        first = ""
        for l in out.splitlines():
            if "violated" in l or "undecided" in l:
                first = l.strip()[:220]
                break
        return "flagged", first
    return "survivor", ""


def main():
    prop = sys.argv[1]
    t0 = time.time()
    variants = []
    for m in json.load(open(os.path.join(VERIF, "tools", "mutants.json"))):
        if m["prop"] != prop:
            continue
        ov = overlay_from_edit(m)
        variants.append((ov, "catalogue: %s (%s)" % (m["note"], m["file"])))
    sd = os.path.join(VERIF, "seeded")
    for d in sorted(os.listdir(sd)) if os.path.isdir(sd) else []:
        meta_p = os.path.join(sd, d, "meta.json")
        if not os.path.exists(meta_p):
            continue
        meta = json.load(open(meta_p))
        if meta.get("property_broken") != prop and prop not in meta.get("detected_by", []):
            continue
        variants.append((overlay_from_patch(os.path.join(sd, d, "patch.diff")), "seeded %s (sub-agent change against %s)" % (d, meta.get("property_broken"))))
    if prop == "C10":
        variants += guard_mutants()

    results = []

    def work(v):
        ov, note = v
        if ov is None:
            return {"variant": note, "outcome": "edit-does-not-apply"}
        outcome, first = run_variant(prop, ov)
        return {"variant": note, "outcome": outcome, "report": first}

    with ThreadPoolExecutor(max_workers=8) as ex:
        results = list(ex.map(work, variants))

    summary = {
        "variants": len(results),
        "flagged": sum(1 for r in results if r["outcome"] == "flagged"),
        "does_not_type_check": sum(1 for r in results if r["outcome"] == "does-not-type-check"),
        "edit_does_not_apply": sum(1 for r in results if r["outcome"] == "edit-does-not-apply"),
        "survivors": [r["variant"] for r in results if r["outcome"] == "survivor"],
        "flagged_samples": [r for r in results if r["outcome"] == "flagged"][:12],
        "wall_s": round(time.time() - t0, 1),
        "note": "edits are applied in memory through packages.Config.Overlay; a survivor measures the checker and never changes the exit code",
    }
    evp = os.path.join(VERIF, "evidence", prop + ".json")
    try:
        ev = json.load(open(evp))
        ev["coverage"]["sensitivity_sweep"] = summary
        ev["wall_s"] = ev.get("wall_s", 0) + summary["wall_s"]
        json.dump(ev, open(evp, "w"), indent=1)
    except Exception as e:  # evidence must already exist (written by regexlint just before)
        print("sweep: cannot update evidence:", e)
    print("%s sweep: %d variants, %d flagged, %d do not type-check, %d do not apply, %d survivors (%.0fs)" % (
        prop, summary["variants"], summary["flagged"], summary["does_not_type_check"], summary["edit_does_not_apply"], len(summary["survivors"]), summary["wall_s"]))
    for s in summary["survivors"]:
        print("  survivor:", s)


if __name__ == "__main__":
    main()
