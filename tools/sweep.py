#!/usr/bin/env python3
"""tools/sweep.py <prop> — sensitivity sweep for one property (thorough tier).

Applies small edits of /repo's CURRENT sources in memory (packages.Config.Overlay,
nothing on disk under /repo changes) and runs the property's rules on each variant in
its own subprocess (at most 8 at a time).  Variants come from
  (a) tools/mutants.json            hand-written catalogue, one entry per rule instance
  (b) seeded/<id>/patch.diff        changes written by independent sub-agents (applied to
                                    a temporary copy of the touched files to get the overlay)
  (c) for C10: every `p.charsRight() <op> k` guard in syntax/parser.go weakened by one

For each variant: does it still type-check, and does some rule report it?
Results are merged into evidence/<prop>.json under coverage.sensitivity_sweep.
A surviving variant measures the checker; it never changes the exit code (always 0).
"""
import json, os, re, subprocess, sys, tempfile, shutil, time
from concurrent.futures import ThreadPoolExecutor

VERIF = os.path.dirname(os.path.dirname(os.path.abspath(__file__)))
REPO = os.environ.get("VERIF_REPO", "/repo")
BIN = os.environ.get("REGEXLINT_BIN") or os.path.join(VERIF, "bin", "regexlint")


def overlay_from_edit(m):
    path = os.path.join(REPO, m["file"])
    src = open(path).read()
    if m["from"] not in src:
        return None
    idx = -1
    for _ in range(m.get("nth", 1)):
        idx = src.index(m["from"], idx + 1)
    return {path: src[:idx] + m["to"] + src[idx + len(m["from"]):]}


def overlay_from_patch(patch):
    files = [l[6:].strip() for l in open(patch) if l.startswith("+++ b/")]
    tmp = tempfile.mkdtemp(prefix="sweep-")
    try:
        for f in files:
            os.makedirs(os.path.dirname(os.path.join(tmp, f)) or tmp, exist_ok=True)
            shutil.copy(os.path.join(REPO, f), os.path.join(tmp, f))
        r = subprocess.run(["patch", "-p1", "-s", "-d", tmp, "-i", patch], capture_output=True, text=True)
        if r.returncode != 0:
            return None
        return {os.path.join(REPO, f): open(os.path.join(tmp, f)).read() for f in files}
    finally:
        shutil.rmtree(tmp, ignore_errors=True)


def guard_mutants():
    """every parser length guard, weakened by one"""
    path = os.path.join(REPO, "syntax/parser.go")
    src = open(path).read()
    out = []
    for mm in re.finditer(r"p\.charsRight\(\) (>=|>|<|<=|==) (\d+)", src):
        op, k = mm.group(1), int(mm.group(2))
        if op == ">=" and k >= 1:
            new = "p.charsRight() >= %d" % (k - 1)
        elif op == ">":
            new = "p.charsRight() >= %d" % k
        elif op == "<" and k >= 1:
            new = "p.charsRight() < %d" % (k - 1)
        elif op == "<=":
            new = "p.charsRight() < %d" % k
        elif op == "==" and k == 0:
            new = "p.charsRight() < 0"
        else:
            continue
        line = src.count("\n", 0, mm.start()) + 1
        out.append(({path: src[:mm.start()] + new + src[mm.end():]},
                    "guard at syntax/parser.go:%d `%s` -> `%s`" % (line, mm.group(0), new)))
    return out


GENERIC_OPS = [
    (r"<=", "<"), (r">=", ">"), (r"(?<![<>=!])<(?![<=-])", "<="), (r"(?<![<>=!-])>(?![>=])", ">="),
    (r"==", "!="), (r"!=", "=="), (r"&&", "||"), (r"\|\|", "&&"),
    (r" \+ 1\b", ""), (r" - 1\b", ""), (r"\btrue\b", "false"), (r"\bfalse\b", "true"),
]


def generic_mutants(prop, want=40):
    """Generic operator mutants (relational / logical / off-by-one / boolean flips, statement deletion) inside the
    functions this property's rules visited on the last run (evidence functions_visited_list).  Deterministic
    sample (VERIF_SEED).  Equivalent and value-level mutants survive by design: the score measures how much of the
    visited code the structural rules actually pin down, it never affects the verdict."""
    import random
    evp = os.path.join(VERIF, "evidence", prop + ".json")
    try:
        visited = set(json.load(open(evp))["coverage"].get("functions_visited_list") or [])
    except Exception:
        return []
    r = subprocess.run([BIN, "-prop", "funcs", "-repo", REPO], capture_output=True, text=True)
    spans = []
    for line in r.stdout.splitlines():
        parts = line.split("\t")
        if len(parts) == 4 and parts[0] in visited:
            spans.append((parts[1], int(parts[2]), int(parts[3]), parts[0]))
    rnd = random.Random(int(os.environ.get("VERIF_SEED", "1")) * 7919 + sum(map(ord, prop)))
    cands = []
    for path, a, b, fn in spans:
        lines = open(path).read().split("\n")
        for ln in range(a, min(b, len(lines))):
            text = lines[ln]
            code = text.split("//")[0]
            if not code.strip() or code.strip().startswith(("case ", "default", "func ", "}", "{")) and "==" not in code:
                pass
            for pat, rep in GENERIC_OPS:
                for mm in re.finditer(pat, code):
                    if code.count('"', 0, mm.start()) % 2 == 1 or code.count("'", 0, mm.start()) % 2 == 1 or code.count("`", 0, mm.start()) % 2 == 1:
                        continue
                    cands.append((path, ln, mm.start(), mm.end(), rep, fn, "`%s` -> `%s`" % (mm.group(0).strip() or mm.group(0), rep.strip() or "(dropped)")))
            st = code.strip()
            if re.match(r"^[A-Za-z_][\w.\[\]]* (=|\+=|-=|\|=|&=) [^{]*$", st) or re.match(r"^[A-Za-z_][\w.]*(\+\+|--)$", st):
                cands.append((path, ln, None, None, None, fn, "statement `%s` deleted" % st[:50]))
    # stratified by function: large functions (the interpreter loop) must not crowd out the small ones
    rnd.shuffle(cands)
    by_fn = {}
    for cnd in cands:
        by_fn.setdefault(cnd[5], []).append(cnd)
    picked = []
    while len(picked) < want and any(by_fn.values()):
        for fn in sorted(by_fn):
            if by_fn[fn] and len(picked) < want:
                picked.append(by_fn[fn].pop())
    out = []
    for path, ln, a, b, rep, fn, what in picked:
        lines = open(path).read().split("\n")
        if rep is None:
            lines[ln] = "\t_ = 0 // mutant: statement removed"
        else:
            lines[ln] = lines[ln][:a] + rep + lines[ln][b:]
        out.append(({path: "\n".join(lines)}, "generic: %s:%d in %s: %s" % (os.path.relpath(path, REPO), ln + 1, fn, what)))
    return out


def run_variant(prop, overlay):
    with tempfile.NamedTemporaryFile("w", suffix=".json", delete=False) as f:
        json.dump(overlay, f)
        name = f.name
    try:
        r = subprocess.run([BIN, "-prop", prop, "-overlay", name, "-no-evidence", "-repo", REPO, "-verif", VERIF],
                           capture_output=True, text=True, timeout=600)
    finally:
        os.unlink(name)
    out = r.stdout + r.stderr
    if "LOAD [" in out or "load / " in out:
        return "does-not-type-check", ""
    if r.returncode != 0:
        first = ""
        for l in out.splitlines():
            if "violated" in l or "undecided" in l:
                first = l.strip()[:220]
                break
        return "flagged", first
    return "survivor", ""


def main():
    prop = sys.argv[1]
    t0 = time.time()
    variants = []
    for m in json.load(open(os.path.join(VERIF, "tools", "mutants.json"))):
        if m["prop"] != prop:
            continue
        ov = overlay_from_edit(m)
        variants.append((ov, "catalogue: %s (%s)" % (m["note"], m["file"])))
    sd = os.path.join(VERIF, "seeded")
    for d in sorted(os.listdir(sd)) if os.path.isdir(sd) else []:
        meta_p = os.path.join(sd, d, "meta.json")
        if not os.path.exists(meta_p):
            continue
        meta = json.load(open(meta_p))
        if meta.get("property_broken") != prop and prop not in meta.get("detected_by", []):
            continue
        variants.append((overlay_from_patch(os.path.join(sd, d, "patch.diff")), "seeded %s (sub-agent change against %s)" % (d, meta.get("property_broken"))))
    if prop == "C10":
        variants += guard_mutants()
    n_specific = len(variants)
    generic = generic_mutants(prop, int(os.environ.get("VERIF_GENERIC_MUTANTS", "40")))
    variants += generic

    results = []

    def work(v):
        ov, note = v
        if ov is None:
            return {"variant": note, "outcome": "edit-does-not-apply"}
        outcome, first = run_variant(prop, ov)
        return {"variant": note, "outcome": outcome, "report": first}

    with ThreadPoolExecutor(max_workers=8) as ex:
        results = list(ex.map(work, variants))

    gen = results[n_specific:]
    results = results[:n_specific]
    gen_ok = [r for r in gen if r["outcome"] in ("flagged", "survivor")]
    generic_summary = {
        "what": "generic operator mutants (relational, logical, off-by-one, boolean flips, statement deletion) sampled inside the functions this property's rules visited; many are equivalent or value-level by nature, so the score measures how much of the visited code the structural rules pin down — it is reported, never part of the verdict",
        "sampled": len(gen),
        "type_checked": len(gen_ok),
        "flagged": sum(1 for r in gen_ok if r["outcome"] == "flagged"),
        "survivors_sample": [r["variant"] for r in gen_ok if r["outcome"] == "survivor"][:15],
        "flagged_sample": [r["variant"] for r in gen_ok if r["outcome"] == "flagged"][:10],
    }
    summary = {
        "generic_mutants": generic_summary,
        "variants": len(results),
        "flagged": sum(1 for r in results if r["outcome"] == "flagged"),
        "does_not_type_check": sum(1 for r in results if r["outcome"] == "does-not-type-check"),
        "edit_does_not_apply": sum(1 for r in results if r["outcome"] == "edit-does-not-apply"),
        "survivors": [r["variant"] for r in results if r["outcome"] == "survivor"],
        "flagged_samples": [r for r in results if r["outcome"] == "flagged"][:12],
        "wall_s": round(time.time() - t0, 1),
        "note": "edits are applied in memory through packages.Config.Overlay; a survivor measures the checker and never changes the exit code",
    }
    evp = os.path.join(VERIF, "evidence", prop + ".json")
    try:
        ev = json.load(open(evp))
        ev["coverage"]["sensitivity_sweep"] = summary
        ev["wall_s"] = ev.get("wall_s", 0) + summary["wall_s"]
        json.dump(ev, open(evp, "w"), indent=1)
    except Exception as e:  # evidence must already exist (written by regexlint just before)
        print("sweep: cannot update evidence:", e)
    print("%s sweep: %d variants, %d flagged, %d do not type-check, %d do not apply, %d survivors (%.0fs)" % (
        prop, summary["variants"], summary["flagged"], summary["does_not_type_check"], summary["edit_does_not_apply"], len(summary["survivors"]), summary["wall_s"]))
    for s in summary["survivors"]:
        print("  survivor:", s)
    g = summary["generic_mutants"]
    print("%s generic mutants in visited functions: %d sampled, %d type-check, %d flagged (reported only)" % (prop, g["sampled"], g["type_checked"], g["flagged"]))


if __name__ == "__main__":
    main()
