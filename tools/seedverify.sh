#!/bin/bash
# tools/seedverify.sh <prop> <A|B|C|D>   — confirm a sub-agent's seeded change independently in a
# scratch worktree: builds, whole suite passes with it, demo fails with it, demo passes without it.
# On success copies it to /verif/seeded/<prop>-<letter>/ .
set -u
prop="$1"; letter="$2"
case "$letter" in A|B) src="/tmp/wt/$prop-out/$letter";; C|D|E) src="/tmp/wt2/$prop-out/$letter";; F|G|H) src="/tmp/wt3/$prop-out/$letter";; J|K|L) src="/tmp/wt4/$prop-out/$letter";; M|N) src="/tmp/wt5/$prop-out/$letter";; P|Q) src="/tmp/wt6/$prop-out/$letter";; R|S) src="/tmp/wt7/$prop-out/$letter";; T|U) src="/tmp/wt8/$prop-out/$letter";; *) src="/tmp/wt9/$prop-out/$letter";; esac
[ -n "${SRC:-}" ] && src="$SRC"
export GOFLAGS=-mod=mod GOPROXY=off GOSUMDB=off GOTOOLCHAIN=local PATH=/opt/veriftools/go1.26.8/bin:$PATH
wt="/tmp/sv-$prop-$letter"
git -C /repo worktree remove --force "$wt" >/dev/null 2>&1
git -C /repo worktree add --detach "$wt" -q || exit 2
cleanup() { git -C /repo worktree remove --force "$wt" >/dev/null 2>&1; }
trap cleanup EXIT
demo=$(ls "$src"/zz_demo_*_test.go | head -1)
pkgline=$(grep -m1 '^package ' "$demo" | awk '{print $2}')
case "$pkgline" in
  regexp2|regexp2_test) dir="." ;;
  syntax|syntax_test) dir="syntax" ;;
  compat|compat_test) dir="compat" ;;
  helpers|helpers_test) dir="helpers" ;;
  *) echo "unknown package $pkgline"; exit 2;;
esac
cd "$wt"
patchfile="$src/patch.diff"
if ! git apply "$patchfile" 2>/dev/null; then
  # the agent's worktree may be a few fix: commits behind /repo: retry with fuzz and regenerate the diff
  patch -p1 -s --no-backup-if-mismatch -i "$patchfile" >/dev/null 2>&1 || { git checkout -q -- .; echo "RESULT $prop-$letter: patch does not apply"; exit 1; }
  find . -name '*.orig' -delete; git diff > /tmp/sv-$prop-$letter.rebased.diff; patchfile=/tmp/sv-$prop-$letter.rebased.diff
  echo "note: patch applied with fuzz and regenerated against /repo HEAD"
fi
go build ./... || { echo "RESULT $prop-$letter: does not build"; exit 1; }
if ! go test -vet=off -count=1 ./... >/tmp/sv-$prop-$letter.suite.log 2>&1; then echo "RESULT $prop-$letter: existing suite FAILS with the change"; tail -5 /tmp/sv-$prop-$letter.suite.log; exit 1; fi
cp "$demo" "$dir/"
timeout 300 go test -vet=off -count=1 -run 'Demo|demo|Zz|ZZ|C[0-9][0-9]' ./$dir >/tmp/sv-$prop-$letter.with.log 2>&1; with=$?
git checkout -q -- . 
timeout 300 go test -vet=off -count=1 -run 'Demo|demo|Zz|ZZ|C[0-9][0-9]' ./$dir >/tmp/sv-$prop-$letter.without.log 2>&1; without=$?
nrun=$(grep -c '^--- \|^ok\|^FAIL' /tmp/sv-$prop-$letter.with.log)
if [ $with -ne 0 ] && [ $without -eq 0 ]; then
  d="/verif/seeded/$prop-$letter"; mkdir -p "$d"
  cp "$patchfile" "$d/patch.diff"; cp "$demo" "$d/"; cp "$src/notes.md" "$d/notes.md" 2>/dev/null
  echo "RESULT $prop-$letter: CONFIRMED (suite passes with change; demo fails with, passes without)"
else
  echo "RESULT $prop-$letter: NOT confirmed (demo with=$with without=$without)"; tail -5 /tmp/sv-$prop-$letter.with.log; tail -5 /tmp/sv-$prop-$letter.without.log
fi
